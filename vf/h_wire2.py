"""C17 (remaining encodings) -- executor messages, controller reports, gateway requests/responses and job instances
written to JSON and read back.  These go through pickle / orjson / pydantic (trusted C code): values are concrete
palette picks, the solver enumerates the configurations."""

from __future__ import annotations

import itertools

import orjson

from vf import repo_env
from vf.engine_xh import Violation
from vf.runner import Harness, register

repo_env.setup()
from vf import h_ctrl  # noqa: E402
import cascade.controller.report as report  # noqa: E402
import cascade.executor.serde as serde  # noqa: E402
import cascade.gateway.api as g_api  # noqa: E402
import cascade.gateway.client as g_client  # noqa: E402
from cascade.executor import msg as M  # noqa: E402
from cascade.low.core import DatasetId, JobInstance, WorkerId  # noqa: E402

INTS = [0, 1, 2**31, 2**32, 2**63, -1]
STRS = ["", "a", "h0.w1", "é-ünï", "x" * 300]
BYTES = [b"", b"\x00", bytes(range(256)), b"\x80\x05\x95"]


class WireJson(Harness):
    name = "wire-pickle-json"
    engine = "E1-crosshair"
    properties = ("C17",)
    rule = "one path = one message (class x field values from palettes incl. 2^32, 2^63, empty and non-ASCII strings, empty/binary payloads) or one generated job instance; non-trivial = the message has >=1 field"
    assumptions = ["pickle, orjson and pydantic-core are trusted (C code): only their use by the project is checked"]
    outside = ["internals of pickle/orjson/pydantic"]

    def shards(self, tier):
        out = [{"kind": "executor-msg", "cls": i} for i in range(15)] + [{"kind": "report"}, {"kind": "gateway"}]
        out += [{"kind": "submit", "n": n, "multi": list(m)} for n in (1, 2) for m in itertools.product([0, 1], repeat=n)]
        out += [{"kind": "instance-file", "n": n, "multi": list(m)} for n in (1, 2) for m in itertools.product([0, 1], repeat=n)]
        for n in (0, 1, 2, 3):
            for multi in itertools.product([0, 1], repeat=n):
                if n == 3 and tier == "quick" and sum(multi) > 1:
                    continue
                out.append({"kind": "job", "n": n, "multi": list(multi)})
        return out

    def budget(self, tier):
        return 60.0 if tier == "quick" else 300.0

    def bounds(self, tier):
        return {"executor_message_classes": 15, "job_tasks": "0..3", "int_palette": INTS, "string_palette": [s[:8] for s in STRS], "bytes_palette": [len(b) for b in BYTES]}

    def functions(self):
        return [serde.ser_message, serde.des_message, report.serialize, report.deserialize, g_client.parse_request, g_client.serialize_response, g_client.request_response, JobInstance] + self._file_sites()

    @staticmethod
    def _file_sites():
        import cascade.benchmarks.__main__ as bench
        import cascade.gateway.router as router

        return [router._spawn_local, router._spawn_slurm, bench.get_job]

    def body(self, ch, params):
        with ch.untraced():
            k = params["kind"]
            ch.note("nontrivial", True)
            if k == "executor-msg":
                m = self.make_msg(ch, params["cls"])
                ch.note("msg", repr(m)[:120])
                try:
                    back = serde.des_message(serde.ser_message(m))
                except Exception as e:
                    raise Violation(f"executor-message-raised-{type(e).__name__}", repr(m)[:120])
                if back != m or type(back) is not type(m):
                    raise Violation("executor-message-roundtrip", f"{m!r} -> {back!r}")
            elif k == "report":
                n, s, b, o = ch.choose(self.VARIANTS, "variant")
                r = report.ControllerReport(s, ch.choose([None, "0.00", "99.99", report.JobProgressShutdown], "status"), n,
                                            [(DatasetId(s, STRS[o]), b)] if ch.flag("hasres") else [])
                ch.note("msg", repr(r)[:120])
                back = report.deserialize(report.serialize(r))
                if back != r:
                    raise Violation("controller-report-roundtrip", f"{r!r} -> {back!r}")
                try:
                    report.deserialize(serde.ser_message(M.Ack(idx=1)))
                except TypeError:
                    pass
                else:
                    raise Violation("foreign-object-accepted-as-report")
            elif k == "gateway":
                self.gateway(ch)
            elif k == "submit":
                self.submit(ch, params)
            elif k == "instance-file":
                self.instance_file(ch, params)
            else:
                job, spec = h_ctrl.build_job(ch, params["n"], params["multi"], params["n"] <= 1, None, with_ext=params["n"] <= 2)
                ch.note("msg", {"tasks": len(job.tasks), "edges": len(job.edges)})
                ch.note("nontrivial", len(job.edges) > 0)
                try:
                    back = JobInstance(**orjson.loads(orjson.dumps(job.dict())))
                except Exception as e:
                    raise Violation(f"job-json-raised-{type(e).__name__}", str(e)[:200])
                if back != job:
                    raise Violation("job-instance-json-roundtrip", f"{back!r} vs {job!r}"[:300])
                if [(e.source, e.sink_task, e.sink_input_kw, e.sink_input_ps) for e in back.edges] != [(e.source, e.sink_task, e.sink_input_kw, e.sink_input_ps) for e in job.edges]:
                    raise Violation("job-edges-changed")
                for t in job.tasks:
                    if list(back.tasks[t].definition.output_schema) != list(job.tasks[t].definition.output_schema):
                        raise Violation("output-declaration-order-lost")

    VARIANTS = [(0, "", b"", 0), (2**32, "a", b"\x00", 1), (2**63, "é-ünï", bytes(range(256)), 2), (-1, "h0.w1", b"\x80\x05\x95", 1), (1, "x" * 300, b"", 2), (2**31, "a", b"\x00", 0)]

    def make_msg(self, ch, i):
        # one pick selects a consistent tuple of look-alike / boundary values (the classes share few fields)
        n, s, b, o = ch.choose(self.VARIANTS, "variant")
        ds = DatasetId(s, STRS[o])
        w = WorkerId(STRS[o] or "h", "w0")
        hdr = M.DatasetTransmitPayloadHeader(confirm_address=s, confirm_idx=n, ds=ds, deser_fun=s)
        return [
            lambda: M.Syn(n, s), lambda: M.Ack(n), lambda: M.TaskSequence(worker=w, tasks=[s, "t"], publish={ds}), lambda: M.TaskFailure(worker=w, task=ch.choose([None, s], "tk"), detail=s),
            lambda: M.DatasetPublished(origin=ch.choose([w, s], "origin"), ds=ds, transmit_idx=ch.choose([None, n], "ti")), lambda: M.DatasetPurge(ds=ds),
            lambda: M.DatasetTransmitCommand(source=s, target=s, daddress=s, ds=ds, idx=n), lambda: M.DatasetTransmitPayload(hdr, b), lambda: M.ExecutorFailure(host=s, detail=s),
            lambda: M.ExecutorExit(host=s), lambda: M.ExecutorRegistration(host=s, maddress=s, daddress=s, workers=[M.Worker(worker_id=w, cpu=1, gpu=n, memory_mb=n)]),
            lambda: M.ExecutorShutdown(), lambda: M.DatasetTransmitFailure(host=s, detail=s), lambda: M.WorkerReady(w), lambda: M.WorkerShutdown(),
        ][i]()

    def submit(self, ch, params):
        """A job instance travelling frontend -> gateway through the real request_response / parse_request / serialize_response."""
        from vf import fakezmq

        job, spec = h_ctrl.build_job(ch, params["n"], params["multi"], False, None, with_ext=True)
        req = g_api.SubmitJobRequest(job=g_api.JobSpec(benchmark_name=None, envvars={"A": "1"}, job_instance=job, workers_per_host=2, hosts=1, use_slurm=False))
        seen = {}

        def server(address, raw):
            seen["req"] = g_client.parse_request(raw)
            return g_client.serialize_response(g_api.SubmitJobResponse(job_id="j1", error=None))

        fakezmq.NET.reset()
        fakezmq.NET.req_handler = server
        try:
            resp = g_client.request_response(req, "tcp://gw:1")
        except Exception as e:
            raise Violation(f"submit-roundtrip-raised-{type(e).__name__}", str(e)[:200])
        finally:
            fakezmq.NET.req_handler = None
        ch.note("msg", {"tasks": len(job.tasks), "edges": len(job.edges)})
        if resp != g_api.SubmitJobResponse(job_id="j1", error=None):
            raise Violation("gateway-response-roundtrip", repr(resp))
        got = seen["req"].job
        gj = got.job_instance if not isinstance(got, dict) else JobInstance(**got["job_instance"])
        if gj != job:
            raise Violation("submitted-job-changed-on-the-wire", "job instance differs after frontend -> gateway")
        for t in job.tasks:
            if list(gj.tasks[t].definition.output_schema) != list(job.tasks[t].definition.output_schema):
                raise Violation("output-declaration-order-lost", f"{t}: {list(gj.tasks[t].definition.output_schema)} vs {list(job.tasks[t].definition.output_schema)}")

    def instance_file(self, ch, params):
        """The gateway hands a submitted job instance to the controller process as a JSON file: the real writer
        (router._spawn_local / _spawn_slurm) and the real reader (benchmarks.__main__.get_job) over an in-memory open()."""
        import io
        import types

        import cascade.benchmarks.__main__ as bench
        import cascade.gateway.router as router

        job, spec = h_ctrl.build_job(ch, params["n"], params["multi"], False, None, with_ext=True)
        files: dict = {}

        class W(io.BytesIO):
            def __init__(self, path):
                super().__init__()
                self.path = path

            def close(self):
                files[self.path] = self.getvalue()
                super().close()

        def fake_open(path, mode="r", *a, **k):
            if "w" in mode or "a" in mode:
                return W(path) if "b" in mode else io.StringIO()
            if path not in files:
                raise FileNotFoundError(path)
            return io.BytesIO(files[path])

        launched = []
        fake_sp = types.SimpleNamespace(Popen=lambda *a, **k: launched.append(a), run=lambda *a, **k: launched.append(a))
        slurm = ch.flag("slurm")
        js = g_api.JobSpec(benchmark_name=None, envvars={}, job_instance=job, workers_per_host=1, hosts=1, use_slurm=slurm)
        old = (router.__dict__.get("open"), router.subprocess, bench.__dict__.get("open"))
        router.open, router.subprocess, bench.open = fake_open, fake_sp, fake_open
        try:
            try:
                (router._spawn_slurm if slurm else router._spawn_local)(js, "tcp://gw:2", "job-1")
            except Exception as e:
                raise Violation(f"instance-file-writer-raised-{type(e).__name__}", str(e)[:200])
            paths = [p for p in files if p.endswith(".json")]
            if len(paths) != 1:
                raise Violation("instance-file-not-written", str(sorted(files)))
            try:
                back = bench.get_job(None, paths[0])
            except Exception as e:
                raise Violation(f"instance-file-reader-raised-{type(e).__name__}", str(e)[:200])
        finally:
            for mod, name, val in ((router, "open", old[0]), (bench, "open", old[2])):
                if val is None:
                    mod.__dict__.pop(name, None)
                else:
                    setattr(mod, name, val)
            router.subprocess = old[1]
        ch.note("msg", {"tasks": len(job.tasks), "edges": len(job.edges), "via": "slurm" if slurm else "local"})
        if back != job:
            raise Violation("job-instance-json-roundtrip", "job instance differs after gateway -> file -> controller")
        for t in job.tasks:
            if list(back.tasks[t].definition.output_schema) != list(job.tasks[t].definition.output_schema):
                raise Violation("output-declaration-order-lost", f"{t}: {list(back.tasks[t].definition.output_schema)} vs {list(job.tasks[t].definition.output_schema)}")

    def gateway(self, ch):
        which = ch.pick(7, "which")
        n, s, b, o = ch.choose(self.VARIANTS, "variant")
        ds = DatasetId(s, STRS[o])
        if which == 0:
            m = g_api.JobProgressRequest(job_ids=[s] if ch.flag("one") else [])
        elif which == 1:
            m = g_api.ResultRetrievalRequest(job_id=s, dataset_id=ds)
        elif which == 2:
            m = g_api.ShutdownRequest()
        elif which == 3:
            m = g_api.JobProgressResponse(progresses={s: "10.00"}, error=ch.choose([None, s], "err"))
        elif which == 4:
            m = g_api.ResultRetrievalResponse(result=ch.choose([None, "QUJD"], "res"), error=ch.choose([None, s], "err"))
        elif which == 5:
            m = g_api.SubmitJobResponse(job_id=ch.choose([None, s], "jid"), error=ch.choose([None, s], "err"))
        else:
            m = g_api.ShutdownResponse(error=ch.choose([None, s], "err"))
        ch.note("msg", repr(m)[:120])
        name = type(m).__name__
        if name.endswith("Request"):
            d = m.model_dump(mode="json")  # what request_response sends
            d["clazz"] = name
            back = g_client.parse_request(orjson.dumps(d))
        else:
            rd = orjson.loads(g_client.serialize_response(m))  # what request_response receives
            rdc = rd.pop("clazz")
            if rdc != name:
                raise Violation("gateway-response-class-changed", f"{rdc} vs {name}")
            back = getattr(g_api, rdc)(**rd)
        if type(back) is not type(m) or back != m:
            raise Violation("gateway-message-roundtrip", f"{m!r} -> {back!r}")
        try:
            g_client.parse_request(orjson.dumps({"clazz": "JobProgressResponse", "progresses": {}, "error": None}))
        except ValueError:
            pass
        else:
            raise Violation("response-accepted-as-request")


register(WireJson())
