"""C17 (remaining encodings) -- executor messages, controller reports, gateway requests/responses and job instances
written to JSON and read back.  These go through pickle / orjson / pydantic (trusted C code): values are concrete
palette picks, the solver enumerates the configurations."""

from __future__ import annotations

import itertools

import orjson

from vf import repo_env
from vf.engine_xh import Violation
from vf.runner import Harness, register

repo_env.setup()
from vf import h_ctrl  # noqa: E402
import cascade.controller.report as report  # noqa: E402
import cascade.executor.serde as serde  # noqa: E402
import cascade.gateway.api as g_api  # noqa: E402
import cascade.gateway.client as g_client  # noqa: E402
from cascade.executor import msg as M  # noqa: E402
from cascade.low.core import DatasetId, JobInstance, WorkerId  # noqa: E402

INTS = [0, 1, 2**31, 2**32, 2**63, -1]
STRS = ["", "a", "h0.w1", "é-ünï", "x" * 300]
BYTES = [b"", b"\x00", bytes(range(256)), b"\x80\x05\x95"]


class WireJson(Harness):
    name = "wire-pickle-json"
    engine = "E1-crosshair"
    properties = ("C17",)
    rule = "one path = one message (class x field values from palettes incl. 2^32, 2^63, empty and non-ASCII strings, empty/binary payloads) or one generated job instance; non-trivial = the message has >=1 field"
    assumptions = ["pickle, orjson and pydantic-core are trusted (C code): only their use by the project is checked"]
    outside = ["internals of pickle/orjson/pydantic"]

    def shards(self, tier):
        out = [{"kind": "executor-msg", "cls": i} for i in range(15)] + [{"kind": "report"}, {"kind": "gateway"}]
        out += [{"kind": "submit", "n": n, "multi": list(m)} for n in (1, 2) for m in itertools.product([0, 1], repeat=n)]
        out += [{"kind": "instance-file", "n": n, "multi": list(m)} for n in (1, 2) for m in itertools.product([0, 1], repeat=n)]
        for n in (0, 1, 2, 3):
            for multi in itertools.product([0, 1], repeat=n):
                if n == 3 and tier == "quick" and sum(multi) > 1:
                    continue
                out.append({"kind": "job", "n": n, "multi": list(multi)})
        return out

    def budget(self, tier):
        return 60.0 if tier == "quick" else 300.0

    def bounds(self, tier):
        return {"executor_message_classes": 15, "job_tasks": "0..3", "int_palette": INTS, "string_palette": [s[:8] for s in STRS], "bytes_palette": [len(b) for b in BYTES]}

    def functions(self):
        return [serde.ser_message, serde.des_message, report.serialize, report.deserialize, g_client.parse_request, g_client.serialize_response, g_client.request_response, JobInstance] + self._file_sites()

    @staticmethod
    def _file_sites():
        import cascade.benchmarks.__main__ as bench
        import cascade.gateway.router as router

        return [router._spawn_local, router._spawn_slurm, bench.get_job]

    def body(self, ch, params):
        with ch.untraced():
            k = params["kind"]
            ch.note("nontrivial", True)
            if k == "executor-msg":
                m = self.make_msg(ch, params["cls"])
                ch.note("msg", repr(m)[:120])
                try:
                    back = serde.des_message(serde.ser_message(m))
                except Exception as e:
                    raise Violation(f"executor-message-raised-{type(e).__name__}", repr(m)[:120])
                if back != m or type(back) is not type(m):
                    raise Violation("executor-message-roundtrip", f"{m!r} -> {back!r}")
            elif k == "report":
                n, s, b, o = ch.choose(self.VARIANTS, "variant")
                r = report.ControllerReport(s, ch.choose([None, "0.00", "99.99", report.JobProgressShutdown], "status"), n,
                                            [(DatasetId(s, STRS[o]), b)] if ch.flag("hasres") else [])
                ch.note("msg", repr(r)[:120])
                back = report.deserialize(report.serialize(r))
                if back != r:
                    raise Violation("controller-report-roundtrip", f"{r!r} -> {back!r}")
                try:
                    report.deserialize(serde.ser_message(M.Ack(idx=1)))
                except TypeError:
                    pass
                else:
                    raise Violation("foreign-object-accepted-as-report")
            elif k == "gateway":
                self.gateway(ch)
            elif k == "submit":
                self.submit(ch, params)
            elif k == "instance-file":
                self.instance_file(ch, params)
            else:
                job, spec = h_ctrl.build_job(ch, params["n"], params["multi"], params["n"] <= 1, None, with_ext=params["n"] <= 2)
                ch.note("msg", {"tasks": len(job.tasks), "edges": len(job.edges)})
                ch.note("nontrivial", len(job.edges) > 0)
                try:
                    back = JobInstance(**orjson.loads(orjson.dumps(job.dict())))
                except Exception as e:
                    raise Violation(f"job-json-raised-{type(e).__name__}", str(e)[:200])
                if back != job:
                    raise Violation("job-instance-json-roundtrip", f"{back!r} vs {job!r}"[:300])
                if [(e.source, e.sink_task, e.sink_input_kw, e.sink_input_ps) for e in back.edges] != [(e.source, e.sink_task, e.sink_input_kw, e.sink_input_ps) for e in job.edges]:
                    raise Violation("job-edges-changed")
                for t in job.tasks:
                    if list(back.tasks[t].definition.output_schema) != list(job.tasks[t].definition.output_schema):
                        raise Violation("output-declaration-order-lost")

    VARIANTS = [(0, "", b"", 0), (2**32, "a", b"\x00", 1), (2**63, "é-ünï", bytes(range(256)), 2), (-1, "h0.w1", b"\x80\x05\x95", 1), (1, "x" * 300, b"", 2), (2**31, "a", b"\x00", 0)]

    def make_msg(self, ch, i):
        # one pick selects a consistent tuple of look-alike / boundary values (the classes share few fields)
        n, s, b, o = ch.choose(self.VARIANTS, "variant")
        ds = DatasetId(s, STRS[o])
        w = WorkerId(STRS[o] or "h", "w0")
        hdr = M.DatasetTransmitPayloadHeader(confirm_address=s, confirm_idx=n, ds=ds, deser_fun=s)
        return [
            lambda: M.Syn(n, s), lambda: M.Ack(n), lambda: M.TaskSequence(worker=w, tasks=[s, "t"], publish={ds}), lambda: M.TaskFailure(worker=w, task=ch.choose([None, s], "tk"), detail=s),
            lambda: M.DatasetPublished(origin=ch.choose([w, s], "origin"), ds=ds, transmit_idx=ch.choose([None, n], "ti")), lambda: M.DatasetPurge(ds=ds),
            lambda: M.DatasetTransmitCommand(source=s, target=s, daddress=s, ds=ds, idx=n), lambda: M.DatasetTransmitPayload(hdr, b), lambda: M.ExecutorFailure(host=s, detail=s),
            lambda: M.ExecutorExit(host=s), lambda: M.ExecutorRegistration(host=s, maddress=s, daddress=s, workers=[M.Worker(worker_id=w, cpu=1, gpu=n, memory_mb=n)]),
            lambda: M.ExecutorShutdown(), lambda: M.DatasetTransmitFailure(host=s, detail=s), lambda: M.WorkerReady(w), lambda: M.WorkerShutdown(),
        ][i]()

    def submit(self, ch, params):
        """A job instance travelling frontend -> gateway through the real request_response / parse_request / serialize_response."""
        from vf import fakezmq

        job, spec = h_ctrl.build_job(ch, params["n"], params["multi"], False, None, with_ext=True)
        if ch.flag("fields_filled_in_after_construction"):
            # the same job, with its requested outputs and custom serdes added to the default containers afterwards
            job2 = JobInstance(tasks=dict(job.tasks), edges=list(job.edges))
            for d in job.ext_outputs:
                job2.ext_outputs.append(d)
            job2.serdes["builtins.bytes"] = ("vf.serde_types.ser_grid", "vf.serde_types.des_grid")
            job = job2
        req = g_api.SubmitJobRequest(job=g_api.JobSpec(benchmark_name=None, envvars={"A": "1"}, job_instance=job, workers_per_host=2, hosts=1, use_slurm=False))
        seen = {}

        def server(address, raw):
            seen["req"] = g_client.parse_request(raw)
            return g_client.serialize_response(g_api.SubmitJobResponse(job_id="j1", error=None))

        fakezmq.NET.reset()
        fakezmq.NET.req_handler = server
        try:
            resp = g_client.request_response(req, "tcp://gw:1")
        except Exception as e:
            raise Violation(f"submit-roundtrip-raised-{type(e).__name__}", str(e)[:200])
        finally:
            fakezmq.NET.req_handler = None
        ch.note("msg", {"tasks": len(job.tasks), "edges": len(job.edges)})
        if resp != g_api.SubmitJobResponse(job_id="j1", error=None):
            raise Violation("gateway-response-roundtrip", repr(resp))
        got = seen["req"].job
        gj = got.job_instance if not isinstance(got, dict) else JobInstance(**got["job_instance"])
        if gj != job:
            raise Violation("submitted-job-changed-on-the-wire", "job instance differs after frontend -> gateway")
        for t in job.tasks:
            if list(gj.tasks[t].definition.output_schema) != list(job.tasks[t].definition.output_schema):
                raise Violation("output-declaration-order-lost", f"{t}: {list(gj.tasks[t].definition.output_schema)} vs {list(job.tasks[t].definition.output_schema)}")

    def instance_file(self, ch, params):
        """The gateway hands a submitted job instance to the controller process as a JSON file: the real writer
        (router._spawn_local / _spawn_slurm) and the real reader (benchmarks.__main__.get_job) over an in-memory open()."""
        import io
        import types

        import cascade.benchmarks.__main__ as bench
        import cascade.gateway.router as router

        job, spec = h_ctrl.build_job(ch, params["n"], params["multi"], False, None, with_ext=True)
        files: dict = {}

        class W(io.BytesIO):
            def __init__(self, path):
                super().__init__()
                self.path = path

            def close(self):
                files[self.path] = self.getvalue()
                super().close()

        def fake_open(path, mode="r", *a, **k):
            if "w" in mode or "a" in mode:
                return W(path) if "b" in mode else io.StringIO()
            if path not in files:
                raise FileNotFoundError(path)
            return io.BytesIO(files[path])

        launched = []
        fake_sp = types.SimpleNamespace(Popen=lambda *a, **k: launched.append(a), run=lambda *a, **k: launched.append(a))
        slurm = ch.flag("slurm")
        js = g_api.JobSpec(benchmark_name=None, envvars={}, job_instance=job, workers_per_host=1, hosts=1, use_slurm=slurm)
        old = (router.__dict__.get("open"), router.subprocess, bench.__dict__.get("open"))
        router.open, router.subprocess, bench.open = fake_open, fake_sp, fake_open
        try:
            try:
                (router._spawn_slurm if slurm else router._spawn_local)(js, "tcp://gw:2", "job-1")
            except Exception as e:
                raise Violation(f"instance-file-writer-raised-{type(e).__name__}", str(e)[:200])
            paths = [p for p in files if p.endswith(".json")]
            if len(paths) != 1:
                raise Violation("instance-file-not-written", str(sorted(files)))
            try:
                back = bench.get_job(None, paths[0])
            except Exception as e:
                raise Violation(f"instance-file-reader-raised-{type(e).__name__}", str(e)[:200])
        finally:
            for mod, name, val in ((router, "open", old[0]), (bench, "open", old[2])):
                if val is None:
                    mod.__dict__.pop(name, None)
                else:
                    setattr(mod, name, val)
            router.subprocess = old[1]
        ch.note("msg", {"tasks": len(job.tasks), "edges": len(job.edges), "via": "slurm" if slurm else "local"})
        if back != job:
            raise Violation("job-instance-json-roundtrip", "job instance differs after gateway -> file -> controller")
        for t in job.tasks:
            if list(back.tasks[t].definition.output_schema) != list(job.tasks[t].definition.output_schema):
                raise Violation("output-declaration-order-lost", f"{t}: {list(back.tasks[t].definition.output_schema)} vs {list(job.tasks[t].definition.output_schema)}")

    def gateway(self, ch):
        which = ch.pick(7, "which")
        n, s, b, o = ch.choose(self.VARIANTS, "variant")
        ds = DatasetId(s, STRS[o])
        if which == 0:
            m = g_api.JobProgressRequest(job_ids=[s] if ch.flag("one") else [])
        elif which == 1:
            m = g_api.ResultRetrievalRequest(job_id=s, dataset_id=ds)
        elif which == 2:
            m = g_api.ShutdownRequest()
        elif which == 3:
            m = g_api.JobProgressResponse(progresses={s: "10.00"}, error=ch.choose([None, s], "err"))
        elif which == 4:
            m = g_api.ResultRetrievalResponse(result=ch.choose([None, "QUJD"], "res"), error=ch.choose([None, s], "err"))
        elif which == 5:
            m = g_api.SubmitJobResponse(job_id=ch.choose([None, s], "jid"), error=ch.choose([None, s], "err"))
        else:
            m = g_api.ShutdownResponse(error=ch.choose([None, s], "err"))
        ch.note("msg", repr(m)[:120])
        name = type(m).__name__
        if name.endswith("Request"):
            d = m.model_dump(mode="json")  # what request_response sends
            d["clazz"] = name
            back = g_client.parse_request(orjson.dumps(d))
        else:
            rd = orjson.loads(g_client.serialize_response(m))  # what request_response receives
            rdc = rd.pop("clazz")
            if rdc != name:
                raise Violation("gateway-response-class-changed", f"{rdc} vs {name}")
            back = getattr(g_api, rdc)(**rd)
        if type(back) is not type(m) or back != m:
            raise Violation("gateway-message-roundtrip", f"{m!r} -> {back!r}")
        try:
            g_client.parse_request(orjson.dumps({"clazz": "JobProgressResponse", "progresses": {}, "error": None}))
        except ValueError:
            pass
        else:
            raise Violation("response-accepted-as-request")


register(WireJson())


# ---------------------------------------------------------------------------------------------------------------------
# the two ends of a wire are different interpreters
# ---------------------------------------------------------------------------------------------------------------------
class _Fixed:
    """A chooser that always takes alternative k (mod n): the message palette is built identically on both ends."""

    def __init__(self, k):
        self.k = k

    def pick(self, n, label=""):
        return self.k % n

    def choose(self, seq, label=""):
        seq = list(seq)
        return seq[self.k % len(seq)]

    def flag(self, label=""):
        return bool(self.k % 2)


def palette_messages():
    h = WireJson()
    out = []
    for k in range(len(WireJson.VARIANTS)):
        for i in range(15):
            out.append(h.make_msg(_Fixed(k), i))
        n, s, b, o = WireJson.VARIANTS[k]
        out.append(report.ControllerReport(s, "10.00", n, [(DatasetId(s, STRS[o]), b)]))
    return out


def cross_process_child(path):
    """Runs in a second interpreter (another hash seed): decode what the first one encoded and compare with the same messages
    built here."""
    import json
    import pickle

    blobs = pickle.load(open(path, "rb"))
    local = palette_messages()
    bad = []
    for k, (raw, mine) in enumerate(zip(blobs, local)):
        try:
            got = report.deserialize(raw) if isinstance(mine, report.ControllerReport) else serde.des_message(raw)
        except Exception as e:
            bad.append([k, f"decoder raised {type(e).__name__}: {e}"])
            continue
        if type(got) is not type(mine) or got != mine:
            bad.append([k, f"{mine!r} decoded as {got!r}"[:300]])
            continue
        try:
            hm = hash(mine)
        except TypeError:
            hm = None
        if hm is not None and (hash(got) != hm or got not in {mine}):
            bad.append([k, f"{mine!r}: equal after decoding but hashes differ (a lookup keyed by it fails)"[:300]])
            continue
        # identifiers inside are used as dictionary / set keys on the receiving side
        for attr in ("ds", "worker", "origin"):
            if hasattr(mine, attr):
                a, b_ = getattr(mine, attr), getattr(got, attr)
                try:
                    if hash(a) != hash(b_) or b_ not in {a}:
                        bad.append([k, f"{type(mine).__name__}.{attr}={a!r}: decoded copy is not found in a set holding the local one"])
                except TypeError:
                    pass
        if hasattr(mine, "publish") and (got.publish != mine.publish or any(d not in got.publish for d in mine.publish)):
            bad.append([k, f"TaskSequence.publish {mine.publish!r} vs {got.publish!r}"])
        if isinstance(mine, report.ControllerReport):
            for (d1, _), (d2, _) in zip(mine.results, got.results):
                if hash(d1) != hash(d2) or d2 not in {d1}:
                    bad.append([k, f"ControllerReport result id {d1!r}: decoded copy is not found in a dict keyed by the local one"])
    print("CROSS-PROCESS-RESULT " + json.dumps(bad))


class CrossProcess(Harness):
    name = "wire-cross-process"
    engine = "E1-crosshair"
    properties = ("C17",)
    rule = "one case = one message of the palette (every executor message class and a controller report, 6 value variants each) encoded here and decoded in a second interpreter with another hash seed; non-trivial = all"
    assumptions = ["concrete execution over the palette (pickle crosses a C boundary, nothing here is symbolic): listed for completeness of the wire claim, not decided by the solver"]
    outside = ["other python versions on the two ends"]

    def functions(self):
        return [serde.ser_message, serde.des_message, report.serialize, report.deserialize, DatasetId, WorkerId]

    def custom_run(self, tier, seed, jobs):
        import json
        import os
        import pickle
        import subprocess
        import sys
        import tempfile
        import time

        from vf.runner import HarnessResult

        t0 = time.perf_counter()
        hr = HarnessResult(name=self.name, engine="concrete (two interpreters)")
        hr.rule, hr.assumptions, hr.outside = self.rule, list(self.assumptions), list(self.outside)
        hr.functions = repo_env.describe(self.functions())
        msgs = palette_messages()
        blobs = [report.serialize(m) if isinstance(m, report.ControllerReport) else serde.ser_message(m) for m in msgs]
        with tempfile.NamedTemporaryFile("wb", suffix=".pkl", delete=False) as fh:
            pickle.dump(blobs, fh)
            path = fh.name
        try:
            env = dict(os.environ, PYTHONHASHSEED="12345", PYTHONPATH=os.path.dirname(os.path.dirname(os.path.abspath(__file__))))
            r = subprocess.run([sys.executable, "-c", f"from vf import h_wire2; h_wire2.cross_process_child({path!r})"], capture_output=True, text=True, env=env, timeout=300)
        finally:
            os.unlink(path)
        line = next((l for l in r.stdout.splitlines() if l.startswith("CROSS-PROCESS-RESULT ")), None)
        hr.bounds = {"messages": len(msgs), "hash_seeds": [os.environ.get("PYTHONHASHSEED", "?"), "12345"]}
        if line is None:
            hr.crashes.append({"fatal": f"second interpreter gave no result: rc={r.returncode} {r.stderr[-400:]}"})
            return hr
        bad = json.loads(line[len("CROSS-PROCESS-RESULT "):])
        hr.evaluations = len(msgs)
        hr.nontrivial = len(msgs)
        hr.exhaustive = True
        hr.samples = [{"message": repr(m)[:100]} for m in msgs[:2]]
        for k, why in bad[:10]:
            hr.failures.append({"key": f"{type(msgs[k]).__name__}-changes-between-interpreters", "msg": why, "reproduced": True, "replay_msg": "",
                                "replay": {"harness": self.name, "index": k}})
        hr.wall_s = time.perf_counter() - t0
        return hr

    def replay(self, rep):
        hr = self.custom_run("quick", 0, 1)
        hit = [f for f in hr.failures if f["replay"]["index"] == rep.get("index")]
        return bool(hit), rep.get("key", ""), hit[0]["msg"] if hit else "no difference"


register(CrossProcess())
