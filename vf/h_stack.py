"""C01/C02/C03 -- the whole real stack in one process: controller loop, real Bridge, real Executor.recv_loop per host, the real
worker receive loop (lifted from entrypoint()) with the real execute_sequence / runner.run / Memory per worker, and a real
DataServer per host, joined by the in-process zmq stand-in.  Nothing of the cluster is modelled here: the only stand-ins are
the sockets (per-address FIFO), the processes (each component is stepped by the harness), the data server's thread pool
(jobs run atomically when picked) and the shared-memory client (a per-host key/value store without memory pressure).

Which component takes its next step -- an executor handling one batch of messages, a worker handling one message, a data
server handling one batch, one pool job running, or control returning to the controller -- is a solver-decided pick for the
first K decisions, then a fixed fair order.  The network is loss-free here (loss, duplication and delay are the subject of
C06 / C07): what is explored is the relative order in which independent channels deliver.
"""

from __future__ import annotations

import types

from vf import fakezmq, repo_env
from vf.engine_xh import HarnessError, Violation
from vf.runner import Harness, register

repo_env.setup()
from vf import h_ctrl, h_worker, h_xfer, sim_cluster  # noqa: E402
from vf.h_comms import CLOCK, FakeProc, SteppedListener, StopStep  # noqa: E402
import cascade.controller.impl as impl  # noqa: E402
import cascade.executor.bridge as bridge_mod  # noqa: E402
import cascade.executor.comms as comms  # noqa: E402
import cascade.executor.data_server as ds_mod  # noqa: E402
import cascade.executor.executor as executor_mod  # noqa: E402
import cascade.executor.runner.entrypoint as entrypoint  # noqa: E402
import cascade.executor.runner.memory as r_memory  # noqa: E402
import cascade.executor.serde as serde  # noqa: E402
import cascade.scheduler.graph as s_graph  # noqa: E402
from cascade.executor import msg as M  # noqa: E402
from cascade.low.core import DatasetId, WorkerId  # noqa: E402
from cascade.low.views import param_source  # noqa: E402

CTRL = "tcp://ctrl:1"
_shm_calls: list = []
executor_mod.shm_client = types.SimpleNamespace(shutdown=lambda: _shm_calls.append("shutdown"), ensure=lambda: None)


class Proc(FakeProc):
    def __init__(self):
        self.exitcode = None
        self.killed = False

    def is_alive(self):
        return self.exitcode is None and not self.killed

    def kill(self):
        self.killed = True


class Store(sim_cluster.HostStore):
    """Per-host stand-in for shm: a read of something that is not there is recorded before it is raised (the worker's
    execute_sequence turns every exception into a TaskFailure message)."""

    def __init__(self, host, problems):
        super().__init__(host)
        self.problems = problems

    def get(self, key, timeout_sec=60.0):
        if key not in self.data:
            self.problems.append(("read-of-dataset-not-on-host", f"{key} is not in the store of {self.host}"))
            raise ValueError(f"shm: {key} not present on {self.host}")
        return super().get(key, timeout_sec)


class World:
    def __init__(self, job, hosts, ch, K):
        self.job, self.ch, self.K = job, ch, K
        self.problems: list = []
        self.trace: list = []
        self.param_source = param_source(job.edges)
        self.execs: dict = {}
        self.datas: dict = {}
        self.workers: dict = {}  # WorkerId -> {"step":..., "alive":bool, "memory":...}
        self.events_to_ctrl = 0
        self.idle_jumps = 0
        self.steps = 0
        self.in_world = False
        self.started: list = []  # (worker, tasks, datasets on the host at that moment)
        self.fault = None  # ("kill-worker", WorkerId, at_step) | ("kill-data", host, at_step) | ("kill-shm", host, at_step)
        self.fault_applied = False
        self.fatal = None
        code = h_worker.lift_loop()
        for hi, gpus in enumerate(hosts):
            h = f"h{hi}"
            srv = h_xfer.make_server(h)
            srv._store = Store(h, self.problems)
            self.datas[h] = srv
            ex = executor_mod.Executor.__new__(executor_mod.Executor)
            ex.job_instance = job
            ex.param_source = self.param_source
            ex.controller_address = CTRL
            ex.host = h
            ex.workers = {WorkerId(h, f"w{wi}"): Proc() for wi in range(len(gpus))}
            ex.datasets = set()
            ex.heartbeat_watcher = comms.GraceWatcher(grace_ms=executor_mod.heartbeat_grace_ms)
            ex.heartbeat_watcher.step()
            ex.terminating = False
            ex.mlistener = SteppedListener(comms.Listener(srv.maddress))
            ex.sender = comms.ReliableSender(srv.maddress, executor_mod.resend_grace_ms)
            ex.sender.add_host("controller", CTRL)
            ex.shm_process, ex.data_server = Proc(), Proc()
            ex.daddress = srv.daddress
            ex.registration = M.ExecutorRegistration(host=h, maddress=srv.maddress, daddress=srv.daddress,
                                                     workers=[M.Worker(worker_id=w, cpu=1, gpu=g, memory_mb=1024) for w, g in zip(ex.workers, gpus)])
            self.execs[h] = ex
            for w in ex.workers:
                g = dict(entrypoint.__dict__)
                g["execute_sequence"] = self._execute_sequence_spy(g["execute_sequence"], w)
                exec(compile(code, "<lifted entrypoint loop>", "exec"), g)
                mem = r_memory.Memory(srv.maddress, w)
                rc = entrypoint.RunnerContext(workerId=w, job=job, callback=srv.maddress, param_source=self.param_source)
                fakezmq.NET.q(entrypoint.worker_address(w))
                self.workers[w] = {"step": g["make_stepper"](rc, mem, entrypoint.PackagesEnv()), "alive": True, "memory": mem}
            # what the executor's register() sends once its workers are up
            fakezmq.NET.q(CTRL).append([serde.ser_message(ex.registration)])

    def _execute_sequence_spy(self, real, w):
        def spy(ts, memory, pckg, ctx):
            self.started.append((w, list(ts.tasks)))
            return real(ts, memory, pckg, ctx)

        return spy

    # -- one step of one component ------------------------------------------------------------------------------------
    def _enabled(self):
        out = []
        for h, ex in self.execs.items():
            if not ex.terminating and fakezmq.NET.q(ex.mlistener.address):
                out.append(("exec", h))
        for w, d in self.workers.items():
            if d["alive"] and fakezmq.NET.q(entrypoint.worker_address(w)):
                out.append(("worker", w))
        for h, srv in self.datas.items():
            if self.execs[h].data_server.killed:
                continue
            if fakezmq.NET.q(srv.daddress) or any(f.done() for f in srv.futs_in_progress.values()):
                out.append(("data", h))
            for k, f in enumerate(srv.ds_proc_tp.pending()):
                out.append(("job", h, k))
        return out

    def _do(self, opt):
        self.steps += 1
        self.trace.append(tuple(map(str, opt)))
        if opt[0] == "exec":
            ex = self.execs[opt[1]]
            ex.mlistener.calls = 0
            try:
                ex.recv_loop()
            except StopStep:
                pass
        elif opt[0] == "worker":
            w = opt[1]
            sim_cluster.SHIM.current = self.datas[w.host]._store
            frames = fakezmq.NET.q(entrypoint.worker_address(w)).popleft()
            msg = serde.des_message(frames[0])
            try:
                r = self.workers[w]["step"](msg)
            except SystemExit as e:
                # the task body called sys.exit: the worker process ends with that code, nothing is reported by the worker itself
                code = e.code if isinstance(e.code, int) else (0 if e.code is None else 1)
                self.problems.append(("worker-process-exited", f"{w}: exit code {code}"))
                self.execs[w.host].workers[w].exitcode = code
                self.workers[w]["alive"] = False
                return
            except Exception as e:
                # the real process would die with this exception: exit code 1, noticed by the executor's healthcheck
                self.problems.append(("worker-process-died", f"{w}: {type(e).__name__}: {e}"))
                self.execs[w.host].workers[w].exitcode = 1
                self.workers[w]["alive"] = False
                return
            if r == "break":
                self.workers[w]["alive"] = False
                self.execs[w.host].workers[w].exitcode = 0
        elif opt[0] == "data":
            h_xfer.step(self.datas[opt[1]])
        elif opt[0] == "job":
            srv = self.datas[opt[1]]
            pend = srv.ds_proc_tp.pending()
            if opt[2] < len(pend):
                h_xfer.WORLD["cur"] = srv
                h_xfer.run_fut(srv, pend[opt[2]])

    def on_poll(self, address):
        """The controller found nothing to read: the rest of the world moves until there is something for it."""
        if address != CTRL or self.in_world:
            return
        self.in_world = True
        try:
            guard = 0
            while True:
                guard += 1
                if guard > 5000 or self.steps > 20000:
                    raise self._fatal(Violation("controller-waits-forever", "the cluster keeps exchanging messages but nothing reaches the controller"))
                self._maybe_fault()
                en = self._enabled()
                have = bool(fakezmq.NET.q(CTRL))
                options = en + ([("return",)] if have else [])
                if not options:
                    # nobody can move without time passing: timers fire (heartbeats, resends)
                    self.idle_jumps += 1
                    if self.idle_jumps > 6:
                        raise self._fatal(Violation("controller-waits-with-nothing-outstanding", f"no component has anything to do and the controller still waits; trace tail {self.trace[-8:]}"))
                    CLOCK.now += 5_000_000_000
                    for h, ex in self.execs.items():
                        if not ex.terminating:
                            self._do(("exec", h))
                    for h in self.datas:
                        if not self.execs[h].data_server.killed:
                            self._do(("data", h))
                    continue
                if self.K > 0 and len(options) > 1:
                    self.K -= 1
                    opt = options[self.ch.pick(len(options), f"step{self.steps}")]
                else:
                    opt = ("return",) if have else en[0]
                if opt[0] == "return":
                    return
                self._do(opt)
        finally:
            self.in_world = False

    def _fatal(self, v):
        # the code under test catches Exception around its receive loop: what the harness has to say is kept aside as well
        if self.fatal is None:
            self.fatal = v
        return v

    def _maybe_fault(self):
        f = self.fault
        if f is None or self.fault_applied or self.steps < f[2]:
            return
        self.fault_applied = True
        self.trace.append(("FAULT",) + tuple(map(str, f[:2])))
        if f[0] == "kill-worker":
            w = f[1]
            if self.workers[w]["alive"]:
                self.workers[w]["alive"] = False
                self.execs[w.host].workers[w].exitcode = -9
        elif f[0] == "kill-data":
            self.execs[f[1]].data_server.exitcode = -9
            self.execs[f[1]].data_server.killed = True  # it no longer takes steps
        elif f[0] == "kill-shm":
            self.execs[f[1]].shm_process.exitcode = -9

    def drain(self):
        """After the controller has returned: everything already sent is still delivered and handled."""
        for _ in range(2000):
            en = self._enabled()
            if not en:
                return
            self._do(en[0])
        raise Violation("cluster-never-quiesces", f"components still busy long after the controller returned; trace tail {self.trace[-8:]}")


class Stack(Harness):
    engine = "E1-crosshair"
    rule = ("one path = (DAG edges, requested outputs, first K decisions of which component of the real stack steps next); non-trivial = >=2 tasks and >=1 edge; "
            "distinct = distinct decision sequences")
    assumptions = ["fakezmq contract: per-address FIFO, no loss here (loss/duplication/delay: C06, C07)", "each component handles one batch of messages atomically; a data-server pool job runs atomically",
                   "per-host shm stand-in without memory pressure (pressure: C08/C09)", "task bodies are uninterpreted term constructors",
                   "after the first K free decisions a fixed fair order finishes the run; time passes (timers fire) only when no component can move"]
    outside = ["more tasks / hosts / free decisions than the bound", "OS processes and real sockets", "message loss in the full stack (covered per layer by C06/C07)"]

    def __init__(self, name, pid):
        self.name, self.pid, self.properties = name, pid, (pid,)

    FAULTS = ["raise", "exit0", "exit3", "kill-worker", "kill-data", "kill-shm"]

    def shards(self, tier):
        if self.pid == "C05":
            out = []
            for fault in self.FAULTS:
                for hosts in (["1x1", "2x1"] if tier == "quick" else ["1x1", "2x1", "1x2", "2x2"]):
                    out.append({"n": 2, "multi": [0, 0], "hosts": hosts, "K": 2 if tier == "quick" else 4, "fixed": {"0-1": 1}, "fault": fault})
                    if tier == "thorough":
                        out.append({"n": 3, "multi": [0, 0, 0], "hosts": hosts, "K": 3, "fixed": {"0-1": 1, "0-2": 1, "1-2": 0}, "fault": fault})
            return out
        out = []
        K = 3 if tier == "quick" else 6
        for hosts in (["1x1", "2x1", "1x2"] if tier == "quick" else ["1x1", "2x1", "1x2", "2x2", "3x1"]):
            for n in (1, 2):
                for multi in ([[0] * n] if tier == "quick" else [[0] * n, [1] + [0] * (n - 1)]):
                    out.append({"n": n, "multi": multi, "hosts": hosts, "K": K})
        # a chain / fan-in of three on two hosts: transfers, a fetch and purges all happen
        for hosts in (["2x1"] if tier == "quick" else ["2x1", "2x2", "1x2"]):
            for f01, f02, f12 in ([(1, 0, 1), (1, 1, 0)] if tier == "quick" else [(1, 0, 1), (1, 1, 0), (1, 1, 1), (2, 0, 1)]):
                out.append({"n": 3, "multi": [0, 0, 0], "hosts": hosts, "K": 2 if tier == "quick" else 5, "fixed": {"0-1": f01, "0-2": f02, "1-2": f12}})
        if tier == "quick":
            out.append({"n": 2, "multi": [1, 0], "hosts": "2x1", "K": 2})
        return out

    def budget(self, tier):
        return 120.0 if tier == "quick" else 900.0

    def bounds(self, tier):
        return {"tasks": "1..3", "free_component_steps_K": "2..3" if tier == "quick" else "5..6", "cluster_shapes": sorted({s["hosts"] for s in self.shards(tier)}), "network": "loss-free FIFO per address"}

    def functions(self):
        return [impl.run, bridge_mod.Bridge, executor_mod.Executor.recv_loop, executor_mod.Executor.terminate, executor_mod.Executor.healthcheck, entrypoint.entrypoint,
                entrypoint.execute_sequence, r_memory.Memory, ds_mod.DataServer.recv_loop, ds_mod.DataServer.send_payload, ds_mod.DataServer.store_payload,
                ds_mod.DataServer.maybe_clean, comms.Listener, comms.ReliableSender, comms.callback, comms.send_data]

    def body(self, ch, params):
        with ch.untraced():
            fakezmq.NET.reset()
            CLOCK.now = 1_000_000_000_000
            _shm_calls.clear()
            n, multi, hosts = params["n"], params["multi"], h_ctrl.HOST_SHAPES[params["hosts"]]
            fixed = {tuple(map(int, k.split("-"))): v for k, v in params.get("fixed", {}).items()}
            h_ctrl.FALSY["on"] = False
            job, spec = h_ctrl.build_job(ch, n, multi, False, fixed)
            fault = params.get("fault")
            fault_task = None
            if fault in ("raise", "exit0", "exit3"):
                fault_task = ch.pick(n, "failing_task")
                job = with_failing_task(job, f"t{fault_task}", fault)
            old_cb, old_shm = r_memory.callback, r_memory.shm_client
            r_memory.callback, r_memory.shm_client = comms.callback, sim_cluster.SHIM
            counter = h_ctrl.PlanCounter(8 * (n + len(job.edges) + len(job.ext_outputs)) + 16)
            impl.plan = counter
            crashed, state = None, None
            world = None
            try:
                world = World(job, hosts, ch, params["K"])
                if fault in ("kill-worker", "kill-data", "kill-shm"):
                    at = ch.pick(8, "fault_at_step")
                    if fault == "kill-worker":
                        world.fault = (fault, ch.choose(sorted(world.workers, key=repr), "victim"), at)
                    else:
                        world.fault = (fault, ch.choose(sorted(world.execs), "victim"), at)
                fakezmq.NET.on_poll = world.on_poll
                br = bridge_mod.Bridge(CTRL, len(hosts))
                pre = s_graph.precompute(job)
                try:
                    try:
                        state = impl.run(job, br, pre)
                    finally:
                        if self.pid == "C05":
                            world.drain()
                    if self.pid != "C05":
                        world.drain()
                except Violation:
                    raise
                except HarnessError:
                    raise
                except Exception as e:
                    crashed = e
            finally:
                impl.plan = counter.orig
                r_memory.callback, r_memory.shm_client = old_cb, old_shm
                fakezmq.NET.on_poll = None
                if world is not None:
                    ch.note("job", {"edges": [(f"t{i}.{o}", f"t{j}", ps if ps is not None else kw) for j, t in enumerate(spec["tasks"]) for (i, o, ps, kw) in t["ins"]],
                                    "ext": [f"t{j}.{o}" for j, o in spec["ext"]], "hosts": params["hosts"], "multi": multi})
                    ch.note("trace", [" ".join(t) for t in world.trace[:60]])
            ch.note("nontrivial", n >= 2 and len(job.edges) >= 1)
            if world is not None and world.fatal is not None:
                raise world.fatal
            oracle = h_ctrl.sequential(spec)
            if self.pid == "C05":
                ch.note("fault", {"kind": fault, "task": fault_task, "where": [str(x) for x in (world.fault or ())], "applied": world.fault_applied, "ended": "raised" if crashed is not None else "returned"})
                ch.note("nontrivial", fault_task is not None or world.fault_applied)
                # the run has ended (we are here): with an error, or with correct values only
                if crashed is None:
                    for (j, o) in spec["ext"]:
                        v = state.outputs.get(DatasetId(f"t{j}", o))
                        if v is None or v != oracle[(j, o)]:
                            raise Violation("run-returned-a-wrong-or-missing-value-after-a-failure", f"t{j}.{o}: {v!r}")
                    if fault_task is not None:
                        raise Violation("failing-task-did-not-fail-the-run", f"task t{fault_task} ({fault}) and the run returned normally")
                # afterwards nothing is left running
                for h, ex in world.execs.items():
                    if not ex.terminating:
                        raise Violation("executor-left-running-after-the-run-ended", f"{h} (run {'raised' if crashed is not None else 'returned'})")
                    if ex.data_server.exitcode is None and not ex.data_server.killed:
                        raise Violation("data-server-left-running", h)
                    if ex.shm_process.exitcode is None and _shm_calls.count("shutdown") < 1:
                        raise Violation("shm-server-left-running", h)
                for w, d in world.workers.items():
                    if d["alive"]:
                        raise Violation("worker-left-running", f"{w} after the run {'raised' if crashed is not None else 'returned'}")
                return
            if self.pid == "C02":
                # a worker starts a sequence only when every input is on its host: a read of a missing dataset is the symptom
                for key, msg in world.problems:
                    if key == "read-of-dataset-not-on-host":
                        raise Violation("worker-started-before-inputs-arrived", msg)
                seen = [t for _, ts in world.started for t in ts]
                if crashed is None and sorted(seen) != sorted(f"t{j}" for j in range(n)):
                    raise Violation("tasks-not-started-exactly-once", f"started {seen}")
                return
            if crashed is not None:
                if self.pid == "C03" or self.pid == "C01":
                    raise Violation(f"run-failed-{type(crashed).__name__}", f"{str(crashed)[:200]} problems={world.problems[:3]}")
                return
            if self.pid == "C01":
                want = {DatasetId(f"t{j}", o) for j, o in spec["ext"]}
                got = {k for k, v in state.outputs.items() if v is not None}
                if set(state.outputs.keys()) != want or got != want:
                    raise Violation("requested-output-not-delivered", f"requested {sorted(map(repr, want))} delivered {sorted(map(repr, got))}")
                for (j, o) in spec["ext"]:
                    if state.outputs[DatasetId(f"t{j}", o)] != oracle[(j, o)]:
                        raise Violation("delivered-value-differs-from-sequential", f"t{j}.{o}: {state.outputs[DatasetId(f't{j}', o)]!r} vs {oracle[(j, o)]!r}")
            if self.pid == "C03":
                if any(v is None for v in state.outputs.values()):
                    raise Violation("finished-with-output-missing")
                for h, ex in world.execs.items():
                    if not ex.terminating:
                        raise Violation("executor-not-shut-down", h)
                    if not ex.data_server.killed:
                        raise Violation("data-server-left-running", h)
                for w, d in world.workers.items():
                    if d["alive"]:
                        raise Violation("worker-left-running", repr(w))
                if _shm_calls.count("shutdown") != len(world.execs):
                    raise Violation("shm-server-not-shut-down-once-per-host", str(_shm_calls))
                if world.problems:
                    raise Violation("component-problem-during-a-successful-run", str(world.problems[:3]))


def _boom(*a, **k):
    raise RuntimeError("task body failed")


def _exit0(*a, **k):
    raise SystemExit(0)


def _exit3(*a, **k):
    raise SystemExit(3)


def with_failing_task(job, tid, kind):
    from cascade.low.core import JobInstance, TaskDefinition

    body = {"raise": _boom, "exit0": _exit0, "exit3": _exit3}[kind]
    tasks = dict(job.tasks)
    t = tasks[tid]
    d = t.definition.model_copy(update={"func": TaskDefinition.func_enc(body)})
    tasks[tid] = t.model_copy(update={"definition": d})
    return JobInstance(tasks=tasks, edges=list(job.edges), ext_outputs=list(job.ext_outputs), serdes=dict(job.serdes))


register(Stack("fullstack-C05", "C05"))
register(Stack("fullstack-C01", "C01"))
register(Stack("fullstack-C02", "C02"))
register(Stack("fullstack-C03", "C03"))
