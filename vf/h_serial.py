"""C12 -- serialise/deserialise, to_json/from_json, Cascade.serialise/from_serialised round-trips."""

from __future__ import annotations

import io
import itertools

from vf import repo_env
from vf.engine_xh import Violation
from vf.runner import Harness, register

repo_env.setup()
import earthkit.workflows as ew  # noqa: E402
import earthkit.workflows.fluent as fluent  # noqa: E402
import earthkit.workflows.graph.export as export  # noqa: E402
from earthkit.workflows import backends  # noqa: E402
from earthkit.workflows.graph import Graph, Node  # noqa: E402
from vf import graphgen  # noqa: E402

FILES: dict[str, bytes] = {}


class _F(io.BytesIO):
    def __init__(self, path, mode):
        super().__init__(FILES.get(path, b"") if "r" in mode else b"")
        self.path, self.mode = path, mode

    def close(self):
        if "w" in self.mode:
            FILES[self.path] = self.getvalue()
        super().close()

    def __exit__(self, *a):
        self.close()
        return False


def fake_open(path, mode="r", *a, **k):
    if "r" in mode and path not in FILES:
        raise FileNotFoundError(path)
    return _F(path, mode)


ew.open = fake_open  # module global shadows the builtin inside earthkit/workflows/__init__.py
repo_env.STUBS_IN_FORCE.append("in-memory open() for earthkit.workflows.Cascade.serialise/from_serialised (a file returns the bytes last written)")

JSON_PAYLOADS = [None, 1, "p", [1, 2], {"k": 1}, {"inputs": {"a": ["x", "y"]}, "outputs": ["o"]}]  # the last one looks like a serialised node
PY_PAYLOADS = [None, ("t", 1), (len, ["x"], {"a": 1}), "p"]


def srcA():
    return 1


def srcB():
    return 2


def srcGen():
    yield 1
    yield 2


def mapf(x):
    return x


def compare(pid_key, g, g2, want, n):
    try:
        got = graphgen.structure(g2)
    except AssertionError as e:
        raise Violation(f"{pid_key}-duplicate-names", str(e))
    if got != want:
        missing = sorted(set(want) - set(got))
        if missing:
            raise Violation(f"{pid_key}-nodes-lost", f"nodes {missing} missing after the round-trip ({len(got)} of {n} left)")
        raise Violation(f"{pid_key}-structure-differs", f"{got} vs {want}")
    if not (g2 == g) or not (g == g2):
        raise Violation(f"{pid_key}-not-equal", "Graph.__eq__ says the round-tripped graph differs")


class Serial(Harness):
    name = "serial-roundtrip"
    engine = "E1-crosshair"
    properties = ("C12",)
    rule = "one path = one generated DAG (inputs, output kinds incl. terminal nodes with outputs and multi-output nodes, payloads); non-trivial = >=2 nodes"
    assumptions = ["node names unique (n0..nk)", "payload palettes: JSON-faithful values for the JSON path; tuples with importable functions for dict/dill"]
    outside = ["payloads dill cannot pickle", "more nodes than the bound"]

    def shards(self, tier):
        fmts = ("dict", "json", "file")
        out = [{"n": n, "fmt": f} for n in range(0, 3) for f in fmts]
        if tier == "quick":
            out += [{"n": 3, "fmt": f, "max_inputs": 1, "npayloads": 2} for f in fmts]
        else:
            out += [{"n": 3, "fmt": f, "npayloads": 2} for f in fmts]
            out += [{"n": 4, "fmt": f, "max_inputs": 1, "npayloads": 2} for f in fmts]
        from vf.engine_xh import split_prefixes

        split = []
        for p in out:
            if p["n"] >= 3:
                split += [{**p, "_prefix": pre} for pre in split_prefixes(self.body, p, 12 if p["n"] == 3 else 48)]
            else:
                split.append(p)
        split += [{"fluent": k} for k in range(6)]
        return split

    def budget(self, tier):
        return 100.0 if tier == "quick" else 900.0

    def bounds(self, tier):
        return {"nodes": "0..2 full; 3 with <=1 input per node and 2 payloads" if tier == "quick" else "0..3 (4 with <=1 input per node)", "inputs_per_node": "0..2", "output_kinds": ["default", "a,b", "none"], "fluent_programs": 6}

    def functions(self):
        return [export.serialise, export.deserialise, export.to_json, export.from_json, export.default_node_factory, Node.serialise, Graph.__eq__, Graph.nodes,
                ew.Cascade.serialise, ew.Cascade.from_serialised]

    def body(self, ch, params):
        with ch.untraced():
            if "fluent" in params:
                return self.fluent_case(ch, params["fluent"])
            n, fmt = params["n"], params["fmt"]
            payloads = (JSON_PAYLOADS if fmt == "json" else PY_PAYLOADS)[-params.get("npayloads", 9):]
            # input names are the node author's to choose: also names that parameters of the reader's helpers happen to have
            in_names = ch.choose([("x", "y"), ("data", "node_factory")], "input_names") if n == 2 else ("x", "y")
            spec = graphgen.gen_spec(ch, n, payloads, max_inputs=params.get("max_inputs", 2), input_names=in_names)
            names = [f"n{j}" for j in range(n)]
            g, nodes = graphgen.build(spec, names)
            want = graphgen.spec_structure(spec, names)
            ch.note("nontrivial", n >= 2)
            ch.note("graph", {k: [list(v[0]), v[1], [list(i) for i in v[2]]] for k, v in want.items()})
            self.roundtrip(fmt, g, want, n)

    _built = 0

    def roundtrip(self, fmt, g, want, n):
        try:
            if fmt == "dict":
                g2 = export.deserialise(export.serialise(g))
            elif fmt == "json":
                g2 = export.from_json(export.to_json(g))
            else:
                FILES.clear()
                # other cascades have been built and extended in this process before
                acc = ew.Cascade()
                Serial._built += 1
                acc += ew.Cascade(Graph([Node(f"unrelated{Serial._built}", payload="u")]))
                ew.Cascade(g).serialise("f.dill")
                g2 = ew.Cascade.from_serialised("f.dill")._graph
        except Exception as e:
            raise Violation(f"{fmt}-raised-{type(e).__name__}", str(e)[:200])
        compare(fmt, g, g2, want, n)

    def fluent_case(self, ch, k):
        import numpy as np

        fmt = ch.choose(["dict", "file"], "fmt")
        src = fluent.from_source(np.array([srcA, srcB]), dims=["d"])
        if k == 0:
            act = src
        elif k == 1:
            act = src.map(mapf)
        elif k == 2:
            act = src.sum(dim="d")
        elif k == 3:
            act = src.map(mapf).mean(dim="d")
        elif k == 4:
            act = fluent.from_source(np.array([srcGen]), yields=("y", [0, 1]), dims=["d"])
        else:
            act = src.map(mapf).concatenate(dim="d").map(mapf)
        g = act.graph()
        want = graphgen.structure(g)
        ch.note("nontrivial", True)
        ch.note("graph", {"fluent_program": k, "nodes": len(want)})
        self.roundtrip(fmt, g, want, len(want))


register(Serial())


class SerialSymNames(Harness):
    """Node and output names as solver variables through the dict round-trip (pure Python, so the strings stay symbolic)."""

    name = "serial-symnames"
    engine = "E1-crosshair"
    properties = ("C12",)
    rule = "one path = one feasible combination of branch outcomes over symbolic node and output names; every path has 3 nodes"
    assumptions = ["names are strings over the stated alphabet and length bound; node names unique"]
    outside = ["names longer than the bound or over other alphabets; the JSON and file paths (C code) are driven with palette names only"]
    ALPHA = "t0"
    _paths = 0

    def shards(self, tier):
        L = 2 if tier == "quick" else 3
        return [{"len": L, "shape": s} for s in ("chain", "named-output", "terminal-with-output")]

    def budget(self, tier):
        return 200.0 if tier == "quick" else 900.0

    def per_path_timeout(self, tier):
        return 60.0

    def bounds(self, tier):
        return {"name_alphabet": self.ALPHA, "name_len": "1..2" if tier == "quick" else "1..3", "graphs": "3 nodes: a -> b -> c, with default or named outputs"}

    def functions(self):
        return [export.serialise, export.deserialise, Node.serialise, Graph.nodes]

    def body(self, ch, params):
        A = ch.str("A", params["len"], self.ALPHA)
        B = ch.str("B", params["len"], self.ALPHA)
        O = ch.str("O", params["len"], self.ALPHA)
        ch.assume(len(A) >= 1 and len(B) >= 1 and len(O) >= 1 and A != B)
        shape = params["shape"]
        a = Node(A, outputs=[O, "zz"], payload="pa") if shape != "chain" else Node(A, payload="pa")
        b = Node(B, payload="pb", x=a.get_output(O) if shape != "chain" else a)
        if shape == "terminal-with-output":
            c = Node("c", outputs=[O], payload="pc", i=b, j=a.get_output("zz"))
        else:
            c = Node("c", outputs=[], payload="pc", i=b, j=(a.get_output("zz") if shape != "chain" else a))
        g = Graph([c])
        want = graphgen.structure(g)
        try:
            g2 = export.deserialise(export.serialise(g))
            got = graphgen.structure(g2)
        except Violation:
            raise
        except Exception as e:
            raise Violation(f"dict-raised-{type(e).__name__}", str(e)[:200])
        if got != want:
            raise Violation("dict-structure-differs", "round-trip of a graph with solver-chosen names changed its structure")
        SerialSymNames._paths += 1
        ch.note("fingerprint", ("path", shape, SerialSymNames._paths))


register(SerialSymNames())
