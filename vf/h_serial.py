"""C12 -- serialise/deserialise, to_json/from_json, Cascade.serialise/from_serialised round-trips."""

from __future__ import annotations

import io
import itertools

from vf import repo_env
from vf.engine_xh import Violation
from vf.runner import Harness, register

repo_env.setup()
import earthkit.workflows as ew  # noqa: E402
import earthkit.workflows.fluent as fluent  # noqa: E402
import earthkit.workflows.graph.export as export  # noqa: E402
from earthkit.workflows import backends  # noqa: E402
from earthkit.workflows.graph import Graph, Node  # noqa: E402
from vf import graphgen  # noqa: E402

FILES: dict[str, bytes] = {}


class _F(io.BytesIO):
    def __init__(self, path, mode):
        super().__init__(FILES.get(path, b"") if "r" in mode else b"")
        self.path, self.mode = path, mode

    def close(self):
        if "w" in self.mode:
            FILES[self.path] = self.getvalue()
        super().close()

    def __exit__(self, *a):
        self.close()
        return False


def fake_open(path, mode="r", *a, **k):
    if "r" in mode and path not in FILES:
        raise FileNotFoundError(path)
    return _F(path, mode)


ew.open = fake_open  # module global shadows the builtin inside earthkit/workflows/__init__.py
repo_env.STUBS_IN_FORCE.append("in-memory open() for earthkit.workflows.Cascade.serialise/from_serialised (a file returns the bytes last written)")

JSON_PAYLOADS = [None, 1, "p", [1, 2], {"k": 1}]
PY_PAYLOADS = [None, ("t", 1), (len, ["x"], {"a": 1}), "p"]


def srcA():
    return 1


def srcB():
    return 2


def srcGen():
    yield 1
    yield 2


def mapf(x):
    return x


def compare(pid_key, g, g2, want, n):
    try:
        got = graphgen.structure(g2)
    except AssertionError as e:
        raise Violation(f"{pid_key}-duplicate-names", str(e))
    if got != want:
        missing = sorted(set(want) - set(got))
        if missing:
            raise Violation(f"{pid_key}-nodes-lost", f"nodes {missing} missing after the round-trip ({len(got)} of {n} left)")
        raise Violation(f"{pid_key}-structure-differs", f"{got} vs {want}")
    if not (g2 == g) or not (g == g2):
        raise Violation(f"{pid_key}-not-equal", "Graph.__eq__ says the round-tripped graph differs")


class Serial(Harness):
    name = "serial-roundtrip"
    engine = "E1-crosshair"
    properties = ("C12",)
    rule = "one path = one generated DAG (inputs, output kinds incl. terminal nodes with outputs and multi-output nodes, payloads); non-trivial = >=2 nodes"
    assumptions = ["node names unique (n0..nk)", "payload palettes: JSON-faithful values for the JSON path; tuples with importable functions for dict/dill"]
    outside = ["payloads dill cannot pickle", "more nodes than the bound"]

    def shards(self, tier):
        fmts = ("dict", "json", "file")
        out = [{"n": n, "fmt": f} for n in range(0, 3) for f in fmts]
        if tier == "quick":
            out += [{"n": 3, "fmt": f, "max_inputs": 1, "npayloads": 2} for f in fmts]
        else:
            out += [{"n": 3, "fmt": f, "npayloads": 2} for f in fmts]
            out += [{"n": 4, "fmt": f, "max_inputs": 1, "npayloads": 2} for f in fmts]
        from vf.engine_xh import split_prefixes

        split = []
        for p in out:
            if p["n"] >= 3:
                split += [{**p, "_prefix": pre} for pre in split_prefixes(self.body, p, 12 if p["n"] == 3 else 48)]
            else:
                split.append(p)
        split += [{"fluent": k} for k in range(6)]
        return split

    def budget(self, tier):
        return 100.0 if tier == "quick" else 900.0

    def bounds(self, tier):
        return {"nodes": "0..2 full; 3 with <=1 input per node and 2 payloads" if tier == "quick" else "0..3 (4 with <=1 input per node)", "inputs_per_node": "0..2", "output_kinds": ["default", "a,b", "none"], "fluent_programs": 6}

    def functions(self):
        return [export.serialise, export.deserialise, export.to_json, export.from_json, export.default_node_factory, Node.serialise, Graph.__eq__, Graph.nodes,
                ew.Cascade.serialise, ew.Cascade.from_serialised]

    def body(self, ch, params):
        with ch.untraced():
            if "fluent" in params:
                return self.fluent_case(ch, params["fluent"])
            n, fmt = params["n"], params["fmt"]
            payloads = (JSON_PAYLOADS if fmt == "json" else PY_PAYLOADS)[-params.get("npayloads", 9):]
            spec = graphgen.gen_spec(ch, n, payloads, max_inputs=params.get("max_inputs", 2))
            names = [f"n{j}" for j in range(n)]
            g, nodes = graphgen.build(spec, names)
            want = graphgen.spec_structure(spec, names)
            ch.note("nontrivial", n >= 2)
            ch.note("graph", {k: [list(v[0]), v[1], [list(i) for i in v[2]]] for k, v in want.items()})
            self.roundtrip(fmt, g, want, n)

    def roundtrip(self, fmt, g, want, n):
        try:
            if fmt == "dict":
                g2 = export.deserialise(export.serialise(g))
            elif fmt == "json":
                g2 = export.from_json(export.to_json(g))
            else:
                FILES.clear()
                ew.Cascade(g).serialise("f.dill")
                g2 = ew.Cascade.from_serialised("f.dill")._graph
        except Exception as e:
            raise Violation(f"{fmt}-raised-{type(e).__name__}", str(e)[:200])
        compare(fmt, g, g2, want, n)

    def fluent_case(self, ch, k):
        import numpy as np

        fmt = ch.choose(["dict", "file"], "fmt")
        src = fluent.from_source(np.array([srcA, srcB]), dims=["d"])
        if k == 0:
            act = src
        elif k == 1:
            act = src.map(mapf)
        elif k == 2:
            act = src.sum(dim="d")
        elif k == 3:
            act = src.map(mapf).mean(dim="d")
        elif k == 4:
            act = fluent.from_source(np.array([srcGen]), yields=("y", [0, 1]), dims=["d"])
        else:
            act = src.map(mapf).concatenate(dim="d").map(mapf)
        g = act.graph()
        want = graphgen.structure(g)
        ch.note("nontrivial", True)
        ch.note("graph", {"fluent_program": k, "nodes": len(want)})
        self.roundtrip(fmt, g, want, len(want))


register(Serial())
