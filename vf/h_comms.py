"""C06 -- acknowledged messaging between the real Bridge and the real Executor.recv_loop over a faulty fake network;
C17 (framing) -- Listener._recv_one on arbitrary frame lists."""

from __future__ import annotations

import itertools
import pickle
import types

from vf import fakezmq, repo_env
from vf.engine_xh import HarnessError, Violation
from vf.runner import Harness, register

repo_env.setup()
import cascade.executor.bridge as bridge_mod  # noqa: E402
import cascade.executor.comms as comms  # noqa: E402
import cascade.executor.executor as executor_mod  # noqa: E402
import cascade.executor.serde as serde  # noqa: E402
from cascade.executor.msg import (Ack, DatasetPublished, DatasetPurge, DatasetTransmitPayload, DatasetTransmitPayloadHeader,  # noqa: E402
                                  ExecutorRegistration, ExecutorShutdown, Syn, TaskSequence, Worker)
from cascade.low.core import DatasetId, JobInstance, WorkerId  # noqa: E402


class Clock:
    def __init__(self):
        self.now = 1_000_000_000_000

    def time_ns(self):
        return self.now

    def time(self):
        return self.now / 1e9

    def sleep(self, s):
        self.now += int(s * 1e9)

    # the monotonic clock is another clock: it counts from boot, decades behind the wall clock
    BOOT = 1_000_000_000_000 - 3_600_000_000_000 // 1000

    def monotonic_ns(self):
        return self.now - self.BOOT

    def monotonic(self):
        return (self.now - self.BOOT) / 1e9

    def perf_counter_ns(self):
        return self.now - self.BOOT


CLOCK = Clock()
for m in (comms, bridge_mod, executor_mod):
    m.time = CLOCK  # module global `time` -> harness clock
repo_env.STUBS_IN_FORCE.append("clock: comms/bridge/executor read the harness clock (advanced only by the harness)")
comms.max_retries_per_message = 3
repo_env.STUBS_IN_FORCE.append("comms.max_retries_per_message lowered from 20 to 3 (module constant)")

CTRL = "tcp://ctrl:1"
EXEC = "tcp://h0:2"
DATA = "tcp://h0:3"
W0 = WorkerId("h0", "w0")


class StopStep(BaseException):
    pass


class SteppedListener:
    """Lets a `while` receive-loop run exactly one iteration: the second recv_messages call raises StopStep."""

    def __init__(self, inner):
        self.inner, self.calls = inner, 0
        self.address = inner.address

    def recv_messages(self, timeout_ms=None):
        self.calls += 1
        if self.calls > 1:
            raise StopStep()
        return self.inner.recv_messages(timeout_ms)

    def __getattr__(self, n):
        return getattr(self.inner, n)


class FakeProc:
    exitcode = None
    pid = 1

    def is_alive(self):
        return True

    def join(self):
        pass

    def kill(self):
        pass


def make_executor():
    ex = executor_mod.Executor.__new__(executor_mod.Executor)
    ex.job_instance = JobInstance(tasks={}, edges=[])
    ex.param_source = {}
    ex.controller_address = CTRL
    ex.host = "h0"
    ex.workers = {W0: FakeProc()}
    ex.datasets = set()
    ex.heartbeat_watcher = comms.GraceWatcher(grace_ms=executor_mod.heartbeat_grace_ms)
    ex.heartbeat_watcher.step()
    ex.terminating = False
    ex.mlistener = SteppedListener(comms.Listener(EXEC))
    ex.sender = comms.ReliableSender(EXEC, executor_mod.resend_grace_ms)
    ex.sender.add_host("controller", CTRL)
    ex.shm_process = FakeProc()
    ex.data_server = FakeProc()
    ex.daddress = DATA
    ex.registration = ExecutorRegistration(host="h0", maddress=EXEC, daddress=DATA, workers=[Worker(worker_id=W0, cpu=1, gpu=0, memory_mb=1)])
    return ex


def make_bridge():
    # the registration is queued before the constructor runs, exactly as an executor would have sent it
    reg = ExecutorRegistration(host="h0", maddress=EXEC, daddress=DATA, workers=[Worker(worker_id=W0, cpu=1, gpu=0, memory_mb=1)])
    fakezmq.NET.q(CTRL).append([serde.ser_message(reg)])
    b = bridge_mod.Bridge(CTRL, 1)
    b.mlistener = SteppedListener(b.mlistener)
    return b


class Net:
    """Per-transmission faults for the first F transmissions between the two endpoints."""

    def __init__(self, ch, F):
        self.ch, self.F, self.n = ch, F, 0
        self.limbo: dict[str, list] = {}
        self.log = []

    def __call__(self, address, frames):
        if address not in (CTRL, EXEC):
            return [frames]  # local deliveries (worker, data server) are not the network under test
        out = []
        if self.n < self.F:
            self.n += 1
            kind = self.ch.pick(4, f"net{self.n}")  # 0 deliver, 1 drop, 2 duplicate, 3 delay behind the next one
        else:
            kind = 0
        self.log.append(("deliver", "drop", "dup", "delay")[kind])
        if kind == 0:
            out = [frames]
        elif kind == 2:
            out = [frames, list(frames)]
        elif kind == 3:
            self.limbo.setdefault(address, []).append(frames)
            return []
        if kind != 3 and self.limbo.get(address):
            out += self.limbo.pop(address)
        return out

    def flush(self):
        for a, fs in list(self.limbo.items()):
            for f in fs:
                fakezmq.NET.q(a).append(f)
        self.limbo.clear()


class AckHarness(Harness):
    name = "ack-messaging"
    engine = "E1-crosshair"
    properties = ("C06",)
    rule = "one path = (messages per direction, per-transmission deliver/drop/duplicate/delay for the first F transmissions, order of endpoint steps and clock jumps); non-trivial = at least one fault injected"
    assumptions = ["fakezmq contract: per-address FIFO, faults only where injected", "max_retries_per_message lowered to 3; the one-step budget obligation covers the real value",
                   "after the faulty prefix the network is perfect and both loops run a fair tail with clock jumps beyond the resend grace"]
    outside = ["TCP-level behaviour of zmq", "unbounded histories, growth of Listener.acked", "heartbeat timing"]

    def shards(self, tier):
        out = []
        F = 4 if tier == "quick" else 6
        S = 3 if tier == "quick" else 4
        for nc, ne in ((1, 0), (0, 1), (1, 1), (2, 0), (0, 2)) if tier == "quick" else ((1, 0), (0, 1), (1, 1), (2, 1), (1, 2), (2, 2)):
            from vf.engine_xh import split_prefixes

            base = {"to_exec": nc, "to_ctrl": ne, "F": F, "S": S}
            out += [{**base, "_prefix": p} for p in split_prefixes(self.body, base, 6 if tier == "quick" else 24)]
            if nc >= 1 and ne >= 1:
                # the publication reports the completion of transfer number i: a counter that is independent of the
                # acknowledged-send counter and takes the same values
                base = {**base, "tidx": True}
                out += [{**base, "_prefix": p} for p in split_prefixes(self.body, base, 6 if tier == "quick" else 24)]
        return out

    def budget(self, tier):
        return 100.0 if tier == "quick" else 900.0

    def bounds(self, tier):
        return {"messages_per_direction": "0..2", "faulty_transmissions_F": 4 if tier == "quick" else 6, "free_interleaving_steps_S": 3 if tier == "quick" else 4, "max_retries": 3}

    def functions(self):
        return [comms.ReliableSender, comms.Listener, comms.callback, comms.send_data, bridge_mod.Bridge.recv_events, bridge_mod.Bridge.__init__,
                executor_mod.Executor.recv_loop, executor_mod.Executor.to_controller, executor_mod.Executor.healthcheck]

    def body(self, ch, params):
        with ch.untraced():
            fakezmq.NET.reset()
            CLOCK.now = 1_000_000_000_000
            net = Net(ch, params["F"])
            br = make_bridge()
            ex = make_executor()
            shutdowns = []
            br.shutdown = lambda: shutdowns.append(1)
            fakezmq.NET.fault = net
            sent_c2e = [TaskSequence(worker=W0, tasks=[f"t{i}"], publish=set()) for i in range(params["to_exec"])]
            sent_e2c = [DatasetPublished(origin=W0, ds=DatasetId(f"d{i}", "0"), transmit_idx=(i if params.get("tidx") else None)) for i in range(params["to_ctrl"])]
            got_ctrl, raised = [], []

            def step_ctrl():
                br.mlistener.calls = 0
                try:
                    evs = br.recv_events()
                    got_ctrl.extend(evs)
                except StopStep:
                    pass
                except ValueError as e:
                    raised.append(("controller", str(e)))

            def step_exec():
                ex.mlistener.calls = 0
                ex.terminating = False
                try:
                    ex.recv_loop()
                except StopStep:
                    pass

            # the applications hand their messages to the acknowledged-send layer
            for m in sent_c2e:
                br.task_sequence(m)
            for m in sent_e2c:
                # a worker reports locally (single frame, no Syn); the executor forwards it with to_controller
                fakezmq.NET.q(EXEC).append([serde.ser_message(m)])
            grace = 801_000_000
            for s in range(params["S"]):
                a = ch.pick(4, f"step{s}")
                if a == 0:
                    step_ctrl()
                elif a == 1:
                    step_exec()
                elif a == 2:
                    CLOCK.now += grace
                else:
                    CLOCK.now += 30_000_000_000  # a long silence (30 s): retransmissions may arrive very late
            # fair tail: perfect network, everybody runs, timers fire
            net.F = net.n
            for _ in range(4 * (comms.max_retries_per_message + 2)):
                net.flush()
                step_exec()
                step_ctrl()
                CLOCK.now += grace
                if raised:
                    break
            worker_q = fakezmq.NET.queues.get("ipc:///tmp/h0.w0.socket", [])
            got_exec = [m for m in (pickle.loads(f[0]) for f in worker_q) if isinstance(m, TaskSequence)]  # publications are fanned out to workers too
            ch.note("faults", net.log)
            ch.note("nontrivial", any(k != "deliver" for k in net.log))
            # an executor-side failure is reported to the controller as ExecutorFailure -> recv_events raises
            exec_failed = any("ExecutorFailure" in r[1] for r in raised)
            for name, sent, got in (("controller->executor", sent_c2e, got_exec), ("executor->controller", sent_e2c, got_ctrl)):
                for m in got:
                    if m not in sent:
                        raise Violation("delivered-message-never-sent", f"{name}: {m}")
                for m in sent:
                    c = sum(1 for g in got if g == m)
                    if c > 1:
                        raise Violation("message-delivered-twice", f"{name}: {m} x{c} faults={net.log}")
                    if c == 0 and not raised:
                        raise Violation(f"message-lost-silently:{name}", f"{m} never delivered and no sender raised; faults={net.log}")


FRAME_KINDS = ["syn", "syn2", "ack", "msg", "hdr", "raw", "garbage", "zraw", "empty"]  # zraw: payload bytes that happen to be a complete zlib stream (a compressing serde)


class Framing(Harness):
    name = "frame-sequences"
    engine = "E1-crosshair"
    properties = ("C17", "C06")
    rule = "one path = a list of <=4 frames, each from {Syn, other Syn, Ack, message, payload header, raw bytes, undecodable}; non-trivial = >=2 frames"
    assumptions = ["pickle round-trips the message dataclasses (trusted C code)"]
    outside = ["frames whose pickle decodes to something that is not a message class"]

    def shards(self, tier):
        return [{"n": n, "_prefix": [k]} for n in range(1, 5) for k in range(len(FRAME_KINDS))] + [{"n": 0}]

    def budget(self, tier):
        return 60.0

    def bounds(self, tier):
        return {"frames": "0..4", "frame_kinds": FRAME_KINDS}

    def functions(self):
        return [comms.Listener._recv_one, comms.ReliableSender.send, comms.send_data, comms.callback, serde.ser_message, serde.des_message]

    def body(self, ch, params):
        with ch.untraced():
            fakezmq.NET.reset()
            lst = comms.Listener("tcp://rx:1")
            msg = DatasetPurge(ds=DatasetId("t", "0"))
            hdr = DatasetTransmitPayloadHeader(confirm_address="tcp://a:1", confirm_idx=7, ds=DatasetId("t", "0"), deser_fun="cloudpickle.loads")
            syn = Syn(idx=1, addr="tcp://tx:9")
            raw = b"\x00\x01payload"
            enc = {"syn": serde.ser_message(syn), "syn2": serde.ser_message(Syn(idx=2, addr="tcp://tx:9")), "ack": serde.ser_message(Ack(idx=5)),
                   "msg": serde.ser_message(msg), "hdr": pickle.dumps(hdr), "raw": raw, "garbage": b"\x80\x05nonsense", "zraw": __import__("zlib").compress(b"payload bytes of a dataset whose serde compresses" * 2), "empty": b""}
            kinds = [FRAME_KINDS[ch.pick(len(FRAME_KINDS), f"f{i}")] for i in range(params["n"])]
            frames = [enc[k] for k in kinds]
            already = ch.flag("syn_seen_before")
            if already:
                lst.acked.add(syn)
            ch.note("frames", kinds)
            ch.note("nontrivial", len(kinds) >= 2)
            # what the three senders of the code base can produce
            wellformed = {("syn", "msg"): msg, ("syn", "ack"): Ack(idx=5), ("msg",): msg, ("ack",): Ack(idx=5)}
            for k in FRAME_KINDS:  # after a payload header, any single frame is the payload bytes
                wellformed[("hdr", k)] = DatasetTransmitPayload(hdr, enc[k])
                wellformed[("syn", "hdr", k)] = DatasetTransmitPayload(hdr, enc[k])
            for k in list(wellformed):
                if k[0] == "syn":
                    wellformed[("syn2",) + k[1:]] = wellformed[k]
            if frames:
                fakezmq.NET.q("tcp://rx:1").append(frames)
            try:
                got = lst._recv_one(0)
                err = None
            except ValueError as e:
                got, err = None, e
            except Exception as e:
                if not frames or tuple(kinds) in wellformed:
                    raise Violation(f"wellformed-frames-raised-{type(e).__name__}", f"{kinds}: {e}")
                got, err = None, e  # undecodable/malformed input may be rejected with any error
            key = tuple(kinds)
            if not frames:
                if got is not None or err is not None:
                    raise Violation("empty-socket-produced-something")
                return
            if key in wellformed:
                dup = already and key[0] == "syn"
                if err is not None:
                    raise Violation("wellformed-frames-rejected", f"{kinds}: {err}")
                if dup:
                    if got is not None:
                        raise Violation("retransmission-delivered-again", f"{kinds}")
                elif got != wellformed[key]:
                    raise Violation("wellformed-frames-decoded-differently", f"{kinds}: {got!r}")
                if key[0] in ("syn", "syn2") and not dup:
                    # the network duplicates (or the sender retransmits) the very same frames: no second delivery
                    fakezmq.NET.q("tcp://rx:1").append(list(frames))
                    try:
                        again = lst._recv_one(0)
                    except Exception as e:
                        raise Violation("retransmission-raised", f"{kinds}: {e}")
                    if again is not None:
                        raise Violation("retransmission-delivered-again", f"{kinds}")
                    fakezmq.NET.queues["tcp://tx:9"].pop()  # its acknowledgement
                if key[0] in ("syn", "syn2"):
                    acks = fakezmq.NET.queues.get("tcp://tx:9", [])
                    if len(acks) != 1 or pickle.loads(acks[0][0]) != Ack(idx=1 if key[0] == "syn" else 2):
                        raise Violation("syn-not-acknowledged", f"{kinds}")
            else:
                if err is None and got is not None:
                    raise Violation("malformed-frames-delivered-as-a-message", f"{kinds} -> {got!r}")
                if err is None and not (already and key[0] == "syn"):
                    # silently swallowing a malformed (possibly already acknowledged) frame loses a message without anybody noticing
                    raise Violation("malformed-frames-silently-dropped", f"{kinds} -> None, no error")


class RetryBudget(Harness):
    """One-step obligation with symbolic `remaining` and clock: every resend strictly decreases the budget and raises at <= 0."""

    name = "retry-budget-step"
    engine = "E1-crosshair"
    properties = ("C06",)
    rule = "one path = ordering class of (symbolic remaining budget, symbolic record time, symbolic clock); non-trivial = the record is due for a resend"
    assumptions = ["integers unbounded"]
    outside = []

    def shards(self, tier):
        return [{}]

    def budget(self, tier):
        return 60.0

    def bounds(self, tier):
        return {"remaining": "any integer >= 1", "clock/record time": "any integers"}

    def functions(self):
        return [comms.ReliableSender.maybe_retry]

    def body(self, ch, params):
        fakezmq.NET.reset()
        remaining = ch.int("remaining", 1, None)
        at = ch.int("at", 0, None)
        now = ch.int("now", 0, None)
        CLOCK.now = now
        s = comms.ReliableSender("tcp://me:1", 800)
        s.add_host("peer", "tcp://peer:1")
        s.inflight[0] = comms._InFlightRecord(host="peer", message=(b"s", b"m"), clazz="X", at=at, remaining=remaining)
        before = len(fakezmq.NET.q("tcp://peer:1"))
        raised = False
        try:
            s.maybe_retry()
        except ValueError:
            raised = True
        due = at < now - 800 * 1_000_000
        resent = len(fakezmq.NET.q("tcp://peer:1")) - before
        due = bool(due)
        ch.note("nontrivial", due)
        ch.note("fingerprint", ("due", due, "raised", raised))
        if due:
            if resent != 1:
                raise Violation("due-record-not-resent")
            if not (s.inflight[0].remaining == remaining - 1):
                raise Violation("retry-budget-not-decreased")
            if (s.inflight[0].remaining <= 0) != raised:
                raise Violation("retry-exhaustion-not-raised", "budget exhausted without raising (or raised early)")
        else:
            if resent != 0 or raised or not (s.inflight[0].remaining == remaining):
                raise Violation("not-due-record-touched")


class RetryWhenBusy(Harness):
    """One iteration of each endpoint's receive loop with a due in-flight record and a non-empty inbox: the record is
    retransmitted in that very iteration -- inbound traffic must not starve the retry timer."""

    name = "retry-when-busy"
    engine = "E1-crosshair"
    properties = ("C06",)
    rule = "one path = (endpoint, what the inbox holds, ordering class of symbolic record time and clock); non-trivial = the inbox is not empty and the record is due"
    assumptions = ["integers unbounded", "one loop iteration = one recv_messages batch"]
    outside = []
    INBOX = ["empty", "stale-ack", "local-publication", "ack+publication"]

    def shards(self, tier):
        return [{"who": w, "inbox": i} for w in ("executor", "controller") for i in range(len(self.INBOX))]

    def budget(self, tier):
        return 60.0

    def bounds(self, tier):
        return {"inbox": self.INBOX, "record time": "any integer up to the (concrete) clock"}

    def functions(self):
        return [executor_mod.Executor.recv_loop, bridge_mod.Bridge.recv_events, comms.ReliableSender.maybe_retry]

    def body(self, ch, params):
        fakezmq.NET.reset()
        now = 10**12 + 5 * 10**9  # concrete: the heartbeat watchers do float arithmetic on the clock
        at = ch.int("at", 0, now)
        CLOCK.now = 10**12
        inbox = self.INBOX[params["inbox"]]
        if params["who"] == "executor":
            ep = make_executor()
            me, peer, host = EXEC, CTRL, "controller"
        else:
            ep = make_bridge()
            ep.shutdown = lambda: None
            ep.mlistener.calls = 0
            me, peer, host = CTRL, EXEC, "h0"
        frames = []
        if inbox in ("stale-ack", "ack+publication"):
            frames.append([serde.ser_message(Ack(idx=77))])
        if inbox in ("local-publication", "ack+publication"):
            frames.append([serde.ser_message(DatasetPublished(origin=W0, ds=DatasetId("d", "0"), transmit_idx=None))])
        for f in frames:
            fakezmq.NET.q(me).append(f)
        CLOCK.now = now
        for w in ([ep.heartbeat_watcher] if params["who"] == "executor" else list(ep.heartbeat_checker.values())):
            w.step()
        ep.sender.inflight[5] = comms._InFlightRecord(host=host, message=(serde.ser_message(Syn(5, me)), serde.ser_message(DatasetPurge(ds=DatasetId("z", "0")))), clazz="X", at=at, remaining=3)
        before = len(fakezmq.NET.q(peer))
        ep.mlistener.calls = 0
        try:
            if params["who"] == "executor":
                ep.recv_loop()
            else:
                ep.recv_events()
        except StopStep:
            pass
        due = bool(at < now - ep.sender.resend_grace)
        rec = ep.sender.inflight.get(5)
        resent = [f for f in list(fakezmq.NET.q(peer))[before:] if len(f) == 2 and f[0] == serde.ser_message(Syn(5, me))]
        ch.note("nontrivial", due and inbox != "empty")
        ch.note("fingerprint", (params["who"], inbox, due))
        if due and (rec is None or not resent or not (rec.remaining == 2)):
            raise Violation("due-record-not-resent-while-busy", f"{params['who']} with inbox {inbox}: the overdue message was not retransmitted in this iteration")
        if not due and (resent or rec is None or not (rec.remaining == 3)):
            raise Violation("not-due-record-touched", f"{params['who']} with inbox {inbox}")


class DedupPermanent(Harness):
    """A retransmission is recognised however much traffic or time lies between the original and the retry: the sender keeps
    retrying for up to 20 resend periods and the receiver may be busy with hundreds of other messages meanwhile."""

    name = "dedup-permanent"
    engine = "E1-crosshair"
    properties = ("C06",)
    rule = "one path = (number of other messages received in between from a palette up to 300, from the same or another sender, time elapsed from a palette up to one hour); non-trivial = >=1 message in between"
    assumptions = ["fakezmq contract"]
    outside = ["memory growth of the receiver's record of what it has seen"]
    BETWEEN = [0, 1, 10, 300]
    ELAPSED_S = [0, 1, 5, 20, 3600]

    def shards(self, tier):
        return [{"between": b} for b in self.BETWEEN]

    def budget(self, tier):
        return 60.0

    def bounds(self, tier):
        return {"messages_in_between": self.BETWEEN, "seconds_elapsed": self.ELAPSED_S}

    def functions(self):
        return [comms.Listener._recv_one, comms.Listener.recv_messages]

    def body(self, ch, params):
        with ch.untraced():
            fakezmq.NET.reset()
            CLOCK.now = 1_000_000_000_000
            lst = comms.Listener("tcp://rx:1")
            me = "tcp://tx:9"
            first = [serde.ser_message(Syn(idx=0, addr=me)), serde.ser_message(DatasetPurge(ds=DatasetId("t", "0")))]
            fakezmq.NET.q("tcp://rx:1").append(list(first))
            got = lst.recv_messages(0)
            if len(got) != 1:
                raise Violation("message-lost-silently:first-delivery", repr(got))
            same_sender = ch.flag("in_between_from_same_sender")
            for i in range(params["between"]):
                fakezmq.NET.q("tcp://rx:1").append([serde.ser_message(Syn(idx=i + 1, addr=me if same_sender else "tcp://other:9")), serde.ser_message(DatasetPurge(ds=DatasetId(f"u{i}", "0")))])
            CLOCK.now += ch.choose(self.ELAPSED_S, "elapsed") * 1_000_000_000
            n = len(lst.recv_messages(0))
            if n != params["between"]:
                raise Violation("message-lost-silently:in-between", f"{n} of {params['between']} delivered")
            CLOCK.now += ch.choose(self.ELAPSED_S, "elapsed2") * 1_000_000_000
            fakezmq.NET.q("tcp://rx:1").append(list(first))  # the retry of the very first message (its ack was lost)
            again = lst.recv_messages(0)
            ch.note("nontrivial", params["between"] >= 1)
            if again:
                raise Violation("retransmission-delivered-again", f"after {params['between']} other messages the retry of message 0 was handed to the application a second time")
            acks = [pickle.loads(f[0]) for f in fakezmq.NET.queues.get(me, [])]
            if sum(1 for a in acks if a == Ack(idx=0)) != 2:
                raise Violation("syn-not-acknowledged", f"acks for message 0: {acks[:3]}...")


class PayloadRoundtrip(Harness):
    """A dataset payload handed to the real send_data comes out of the real Listener as the same header and the same bytes:
    empty values, one byte, bytes that look like a pickle / a zlib stream / a Syn, a memoryview, a large value."""

    name = "payload-roundtrip"
    engine = "E1-crosshair"
    properties = ("C17", "C07")
    rule = "one path = (payload value from a palette of boundary / look-alike values, bytes or memoryview, with or without retransmission); non-trivial = all"
    assumptions = ["fakezmq contract"]
    outside = ["values beyond a few hundred kB"]

    def shards(self, tier):
        return [{}]

    def budget(self, tier):
        return 60.0

    def bounds(self, tier):
        return {"values": ["empty", "1 byte", "pickled Syn", "pickled header", "zlib stream", "300 kB"], "forms": ["bytes", "memoryview"]}

    def functions(self):
        return [comms.send_data, comms.Listener._recv_one]

    def body(self, ch, params):
        with ch.untraced():
            fakezmq.NET.reset()
            hdr = DatasetTransmitPayloadHeader(confirm_address="tcp://a:1", confirm_idx=7, ds=DatasetId("t", "0"), deser_fun="cloudpickle.loads")
            syn = Syn(idx=3, addr="tcp://tx:9")
            values = [b"", b"\x00", serde.ser_message(syn), pickle.dumps(hdr), __import__("zlib").compress(b"abc" * 50), bytes(range(256)) * 1200]
            raw = ch.choose(values, "value")
            value = memoryview(raw) if ch.flag("as_memoryview") else raw
            lst = comms.Listener("tcp://rx:1")
            try:
                comms.send_data("tcp://rx:1", DatasetTransmitPayload(header=hdr, value=value), syn)
                got = lst.recv_messages(0)
            except Exception as e:
                raise Violation(f"payload-transport-raised-{type(e).__name__}", f"{len(raw)} bytes: {e}")
            ch.note("case", {"bytes": len(raw)})
            ch.note("nontrivial", True)
            if len(got) != 1 or not isinstance(got[0], DatasetTransmitPayload) or got[0].header != hdr or bytes(got[0].value) != raw:
                raise Violation("payload-changed-in-transport", f"{len(raw)} bytes sent, received {[ (type(g).__name__, len(getattr(g, 'value', b''))) for g in got]}")
            if ch.flag("retransmitted"):
                comms.send_data("tcp://rx:1", DatasetTransmitPayload(header=hdr, value=value), syn)
                if lst.recv_messages(0):
                    raise Violation("retransmission-delivered-again", f"payload of {len(raw)} bytes")


register(AckHarness())
register(PayloadRoundtrip())
register(RetryWhenBusy())
register(DedupPermanent())
register(Framing())
register(RetryBudget())
