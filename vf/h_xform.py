"""C11 -- graph transformations (copy, rename, deduplicate, fuse, split, expand) preserve what the sinks denote."""

from __future__ import annotations

import itertools

from vf import repo_env
from vf.engine_xh import Violation
from vf.runner import Harness, register

repo_env.setup()
import earthkit.workflows.graph.copy as g_copy  # noqa: E402
import earthkit.workflows.graph.deduplicate as g_dedup  # noqa: E402
import earthkit.workflows.graph.expand as g_expand  # noqa: E402
import earthkit.workflows.graph.fuse as g_fuse  # noqa: E402
import earthkit.workflows.graph.rename as g_rename  # noqa: E402
import earthkit.workflows.graph.split as g_split  # noqa: E402
import earthkit.workflows.graph.transform as g_transform  # noqa: E402
from earthkit.workflows.graph import Graph, Node  # noqa: E402
from vf import graphgen  # noqa: E402

NAME_SCHEMES = [["n0", "n1", "n2", "n3", "n4"], ["a", "a.b", "ab", "b.a", "b"], ["0", "x.", "a0", "00", "x"], [".", "a.", ".a", "a", ".."]]
NAMES = sorted({n for sch in NAME_SCHEMES for n in sch})
OUTS = {"default": None, "ab": ["b", "a"], "attr": ["name", "payload"], "none": []}  # "b","a": declared order is not the sorted order
PAYLOADS = ["p", "q"]
RENAMERS = [("prefix", lambda n: "r." + n), ("suffix", lambda n: n + "_"), ("wrap", lambda n: f"<{n}>")]


def sink_denotations(graph):
    memo = {}
    return sorted(repr(graphgen.denote_node(s, memo)) for s in graph.sinks)


def all_denotations(graph):
    memo = {}
    return {n.name: graphgen.denote_node(n, memo) for n in graph.nodes()}


def guarded(what, f):
    try:
        return f()
    except Violation:
        raise
    except Exception as e:
        raise Violation(f"{what}-raised-{type(e).__name__}", str(e)[:200])


# ---- fusion: chains are fused into a node whose payload lists the steps -------------------------------------
def fuse_chain(parent, pout, child, cin):
    if pout != Node.DEFAULT_OUTPUT or len(parent.outputs) != 1 or len(child.inputs) != 1 or not parent.inputs:
        return None
    psteps = parent.payload[1] if isinstance(parent.payload, tuple) and parent.payload and parent.payload[0] == "seq" else [(parent.payload, None)]
    return Node(f"{parent.name}+{child.name}", list(child.outputs), payload=("seq", psteps + [(child.payload, cin)]), **parent.inputs)


def unfold_denotation(node, memo):
    """Like graphgen.denote_node, with ('seq', steps) payloads unfolded into the chain they stand for."""
    if id(node) in memo:
        return memo[id(node)]
    ins = tuple(sorted((iname, unfold_denotation(src.parent, memo), src.name) for iname, src in node.inputs.items()))
    if isinstance(node.payload, tuple) and node.payload and node.payload[0] == "seq":
        steps = node.payload[1]
        d = (repr(steps[0][0]), (Node.DEFAULT_OUTPUT,), ins)
        for k, (pl, cin) in enumerate(steps[1:]):
            outs = tuple(node.outputs) if k == len(steps) - 2 else (Node.DEFAULT_OUTPUT,)
            d = (repr(pl), outs, ((cin, d, Node.DEFAULT_OUTPUT),))
    else:
        d = (repr(node.payload), tuple(node.outputs), ins)
    memo[id(node)] = d
    return d


class Xform(Harness):
    engine = "E1-crosshair"
    properties = ("C11",)
    rule = "one path = (generated DAG, names from a palette of look-alike names, transformation and its parameter); non-trivial = >=2 nodes"
    assumptions = ["node names unique within a graph; renaming functions injective", "names, output names and payloads are palette picks (sets of Node objects iterate in id() order, so symbolic names are kept to the dedicated harness)"]
    outside = ["graphs larger than the bound, cyclic graphs", "custom splicers/splitters", "fusion callbacks other than 'never' and 'fuse linear chains'"]

    _max_inputs = 2
    _light = False

    def __init__(self, name, ops):
        self.name, self.ops = name, ops

    def shards(self, tier):
        nmax = 3 if tier == "quick" else 4
        out = []
        for op in self.ops:
            for n in range(1, nmax + 1):
                base = {"op": op, "n": n}
                if (tier == "quick" and n >= 3) or n >= 4:
                    base["max_inputs"] = 1
                    base["light"] = True  # one payload, two name schemes
                if op == "dedup" and n == 3 and base.get("max_inputs") == 1:
                    # two-input nodes (also declared in swapped order) over a shared parent
                    extra = {"op": op, "n": 3, "max_inputs": 2, "light": True}
                    from vf.engine_xh import split_prefixes as _sp

                    out += [{**extra, "_prefix": p} for p in _sp(self.body, extra, 8)]
                if n >= 3 or (n == 2 and op in ("expand", "split")):
                    from vf.engine_xh import split_prefixes

                    out += [{**base, "_prefix": p} for p in split_prefixes(self.body, base, 8 if n == 3 else 32)]
                else:
                    out.append(base)
        return out

    def budget(self, tier):
        return 90.0 if tier == "quick" else 900.0

    def bounds(self, tier):
        return {"nodes": "1..3" if tier == "quick" else "1..4", "inputs_per_node": "0..2 (0..1 for the largest graphs of the tier)", "name_schemes": NAME_SCHEMES, "name_palette": NAMES, "output_kinds": {k: v for k, v in OUTS.items()},
                "payloads": PAYLOADS, "transformations": self.ops}

    def functions(self):
        return [g_transform.Transformer, g_copy.copy_graph, g_rename.rename_nodes, g_dedup.deduplicate_nodes, g_fuse.fuse_nodes, g_split.split_graph, g_split.Splitter,
                g_expand.expand_graph, g_expand.Splicer, g_expand._Expander, Graph.nodes, Node]

    # ---------------------------------------------------------------------------------------------------------
    def gen(self, ch, n, outs=None):
        names = list(ch.choose(NAME_SCHEMES[1:3] if self._light else NAME_SCHEMES, "names"))[:n]
        spec = graphgen.gen_spec(ch, n, PAYLOADS[:1] if self._light else PAYLOADS, outs_palette=outs or OUTS, max_inputs=self._max_inputs)
        return spec, names

    def body(self, ch, params):
        with ch.untraced():
            op, n = params["op"], params["n"]
            self._max_inputs = params.get("max_inputs", 2)
            self._light = params.get("light", False)
            getattr(self, "do_" + op)(ch, n)
            ch.note("nontrivial", n >= 2)

    def do_copy(self, ch, n):
        spec, names = self.gen(ch, n)
        g, nodes = graphgen.build(spec, names)
        want = graphgen.spec_structure(spec, names)
        ch.note("graph", {"names": names, "op": "copy"})
        g2 = guarded("copy", lambda: g_copy.copy_graph(g))
        got = guarded("copy-result-walk", lambda: graphgen.structure(g2))
        if got != want:
            raise Violation("copy-structure-differs", f"{got} vs {want}")
        if graphgen.structure(g) != want:
            raise Violation("copy-changed-the-original")
        if {id(x) for x in g2.nodes()} & {id(x) for x in g.nodes()}:
            raise Violation("copy-shares-nodes-with-original")
        if sink_denotations(g2) != sink_denotations(g):
            raise Violation("copy-denotation-differs")

    def do_rename(self, ch, n):
        spec, names = self.gen(ch, n)
        g, nodes = graphgen.build(spec, names)
        rname, rf = ch.choose(RENAMERS, "renamer")
        before = sink_denotations(g)
        want = graphgen.spec_structure(spec, [rf(x) for x in names])
        ch.note("graph", {"names": names, "op": "rename", "renamer": rname})
        g2 = guarded("rename", lambda: g_rename.rename_nodes(rf, g))
        got = guarded("rename-result-walk", lambda: graphgen.structure(g2))
        if got != want:
            raise Violation("rename-structure-differs", f"{got} vs {want}")
        if sink_denotations(g2) != before:
            raise Violation("rename-denotation-differs")

    def do_dedup(self, ch, n):
        spec, names = self.gen(ch, n, outs={k: v for k, v in OUTS.items() if k != "attr"})
        g, nodes = graphgen.build(spec, names)
        before = sorted(set(sink_denotations(g)))
        distinct = len({repr(d) for d in all_denotations(g).values()})
        ch.note("graph", {"names": names, "op": "dedup"})
        g2 = guarded("dedup", lambda: g_dedup.deduplicate_nodes(g))
        st2 = guarded("dedup-result-walk", lambda: graphgen.structure(g2))
        after = sorted(set(sink_denotations(g2)))
        if after != before:
            raise Violation("dedup-denotation-differs", f"{after} vs {before}")
        dens = [repr(d) for d in all_denotations(g2).values()]
        if len(dens) != len(set(dens)):
            raise Violation("dedup-left-duplicates", f"{len(dens)} nodes, {len(set(dens))} distinct")
        if len(dens) != distinct:
            raise Violation("dedup-node-count", f"{len(dens)} nodes for {distinct} distinct computations")
        g3 = guarded("dedup-twice", lambda: g_dedup.deduplicate_nodes(g2))
        if graphgen.structure(g3) != st2:
            raise Violation("dedup-not-idempotent")

    def do_fuse(self, ch, n):
        spec, names = self.gen(ch, n, outs={k: v for k, v in OUTS.items() if k != "attr"})
        g, nodes = graphgen.build(spec, names)
        mode = ch.choose(["never", "chain"], "callback")
        memo = {}
        before = sorted(repr(unfold_denotation(s, memo)) for s in g.sinks)
        want_never = graphgen.spec_structure(spec, names)
        ch.note("graph", {"names": names, "op": "fuse", "callback": mode})
        cb = (lambda *a: None) if mode == "never" else fuse_chain
        g2 = guarded("fuse", lambda: g_fuse.fuse_nodes(cb, g))
        guarded("fuse-result-walk", lambda: graphgen.structure(g2))
        memo = {}
        after = sorted(repr(unfold_denotation(s, memo)) for s in g2.sinks)
        if after != before:
            raise Violation(f"fuse-{mode}-denotation-differs", f"{after} vs {before}")
        if mode == "never" and graphgen.structure(g2) != want_never:
            raise Violation("fuse-never-changed-structure")

    def do_split(self, ch, n):
        spec, names = self.gen(ch, n, outs={k: v for k, v in OUTS.items() if k != "attr"})
        g, nodes = graphgen.build(spec, names)
        by_depth = ch.flag("key_looks_at_the_ancestry")
        if by_depth:
            # a key function that looks at where the node sits in the graph (parity of its depth), not at its name
            depth = []
            for nd_ in spec:
                depth.append(1 + max([depth[i] for (_, i, _) in nd_["inputs"]], default=-1))
            colour = {nm: depth[j] % 2 for j, nm in enumerate(names)}

            def node_depth(nd):
                return 1 + max([node_depth(src.parent) for src in nd.inputs.values()], default=-1)

            keyf = lambda nd: node_depth(nd) % 2  # noqa: E731
        else:
            colour = {nm: ch.pick(2, f"colour{j}") for j, nm in enumerate(names)}
            keyf = lambda nd: colour[nd.name]  # noqa: E731
        want = graphgen.spec_structure(spec, names)
        ch.note("graph", {"names": names, "op": "split", "colours": colour, "key": "depth parity" if by_depth else "by name"})
        parts, cuts = guarded("split", lambda: g_split.split_graph(keyf, g))
        seen = {}
        cutnames = {c.name: c for c in cuts}
        for k, pg in parts.items():
            for nd in guarded("split-part-walk", lambda: list(pg.nodes())):
                if nd.name in cutnames:
                    continue
                if nd.name in seen:
                    raise Violation("split-node-in-two-parts", nd.name)
                if colour.get(nd.name) != k:
                    raise Violation("split-node-in-wrong-part", f"{nd.name} in part {k}")
                seen[nd.name] = nd
        if sorted(seen) != sorted(names):
            raise Violation("split-lost-or-invented-nodes", f"{sorted(seen)} vs {sorted(names)}")
        # re-join along the reported cut edges
        rejoined = {}
        for nm, nd in seen.items():
            ins = []
            for iname, src in nd.inputs.items():
                if src.parent.name in cutnames:
                    c = cutnames[src.parent.name]
                    if c.dest_node != nm or c.dest_input != iname:
                        raise Violation("split-cut-edge-misreported", f"{c} used by {nm}.{iname}")
                    ins.append((iname, c.source_node, c.source_output))
                else:
                    ins.append((iname, src.parent.name, src.name))
            rejoined[nm] = (tuple(nd.outputs), repr(nd.payload), tuple(sorted(ins)))
        if rejoined != want:
            raise Violation("split-rejoin-differs", f"{rejoined} vs {want}")
        ncross = sum(1 for j, nd in enumerate(spec) for (_, i, _) in nd["inputs"] if colour[names[i]] != colour[names[j]])
        if len(cuts) != ncross:
            raise Violation("split-cut-count", f"{len(cuts)} cuts for {ncross} crossing edges")

    def do_expand(self, ch, n):
        # node X (picked) is replaced by: source "x" -> "mid" -> leaf sink(s)
        spec, names = self.gen(ch, n, outs=None if not self._light else {k: v for k, v in OUTS.items() if k != "attr"})
        xi = ch.pick(n, "expanded")
        # X takes at most the input named "x" (the generator names inputs x, y)
        ch.assume(len(spec[xi]["inputs"]) <= 1)
        g, nodes = graphgen.build(spec, names)
        X = names[xi]
        # precondition of the prefixing scheme: prefixed names must not collide with existing ones
        ch.assume(not any(nm.startswith(X + ".") for nm in names if nm != X))
        outs = spec[xi]["outputs"]
        outs = [Node.DEFAULT_OUTPUT] if outs is None else list(outs)
        map_mode = ch.pick(3, "maps")  # 0 no maps, 1 complete output map, 2 partial output map (unmapped outputs fall back to the sink of the same name)
        use_maps = map_mode > 0
        mapped = set(outs) if map_mode == 1 else (set(outs[:1]) if map_mode == 2 else set())
        leaf = lambda o: ("L" + o) if o in mapped else o  # noqa: E731
        src_name = "s1" if use_maps else "x"
        side = ch.flag("side_sink")
        ch.assume(bool(outs) or side)  # the template has at least one sink

        named_src = (not self._light) and ch.flag("template_source_has_named_outputs")
        # a genuine source of the template that the input map does not mention, named like an input of the expanded node: it stays a source
        free_src = use_maps and bool(spec[xi]["inputs"]) and ch.flag("template_has_unmapped_source_named_like_an_input")

        def expander(node):
            if node.name != X:
                return None
            s = Node(src_name, outputs=["p", "q"], payload="tsrc") if named_src else Node(src_name, payload="tsrc")
            if free_src:
                mid = Node("mid", payload="tmid", i=s.get_output("q") if named_src else s, j=Node("x", payload="tfree"))
            else:
                mid = Node("mid", payload="tmid", i=s.get_output("q") if named_src else s)
            sinks = [Node(leaf(o), outputs=[], payload=("tleaf", o), i=mid) for o in outs]
            extra = [Node("side", outputs=[], payload="tside", i=mid)] if side else []
            sub = Graph(sinks + extra)
            if use_maps:
                return sub, ({"s1": "x"} if spec[xi]["inputs"] else {}), {o: leaf(o) for o in outs if o in mapped}
            return sub

        ch.note("graph", {"names": names, "op": "expand", "expanded": X, "maps": ["none", "complete", "partial"][map_mode]})
        g2 = guarded("expand", lambda: g_expand.expand_graph(expander, g))
        got = guarded("expand-result-walk", lambda: graphgen.structure(g2))
        # expected structure
        want = dict(graphgen.spec_structure(spec, names))
        want.pop(X)
        xin = [(iname, names[i], o) for (iname, i, o) in spec[xi]["inputs"]]
        souts = ("p", "q") if named_src else (Node.DEFAULT_OUTPUT,)
        if xin:
            want[f"{X}.{src_name}"] = (souts, repr("tsrc"), (("input", xin[0][1], xin[0][2]),))
        else:
            want[f"{X}.{src_name}"] = (souts, repr("tsrc"), ())
        want[f"{X}.mid"] = ((Node.DEFAULT_OUTPUT,), repr("tmid"), (("i", f"{X}.{src_name}", "q" if named_src else Node.DEFAULT_OUTPUT),))
        if free_src:
            want[f"{X}.x"] = ((Node.DEFAULT_OUTPUT,), repr("tfree"), ())
            want[f"{X}.mid"] = (want[f"{X}.mid"][0], want[f"{X}.mid"][1], want[f"{X}.mid"][2] + (("j", f"{X}.x", Node.DEFAULT_OUTPUT),))
        for o in outs:
            want[f"{X}.{leaf(o)}"] = ((Node.DEFAULT_OUTPUT,), repr(("tleaf", o)), (("i", f"{X}.mid", Node.DEFAULT_OUTPUT),))
        # consumers of X are wired to the leaf selected by the output map
        for nm in list(want):
            outs_, pl, ins = want[nm]
            want[nm] = (outs_, pl, tuple(sorted((iname, f"{X}.{leaf(o)}", Node.DEFAULT_OUTPUT) if p == X else (iname, p, o) for (iname, p, o) in ins)))
        got_core = {k: v for k, v in got.items() if not k.endswith(".side")}
        # only what the sinks of the result reach is part of the graph: original terminals, the side sink, and - if X was
        # terminal - its leaves; an unused output of an expanded inner node legitimately disappears
        x_terminal = X not in {names[i] for nd in spec for (_, i, _) in nd["inputs"]}
        roots = [names[j] for j in graphgen.terminals(spec) if names[j] != X]
        if x_terminal:
            roots += [f"{X}.{leaf(o)}" for o in outs]
        if side:
            roots.append(f"{X}.mid")
        keep, todo = set(), list(roots)
        while todo:
            k = todo.pop()
            if k in keep or k not in want:
                continue
            keep.add(k)
            todo.extend(p for (_, p, _) in want[k][2])
        want = {k: v for k, v in want.items() if k in keep}
        is_terminal = X not in {names[i] for nd in spec for (_, i, _) in nd["inputs"]}
        if is_terminal and outs and not all(f"{X}.{leaf(o)}" in got_core for o in outs):
            raise Violation("expand-dropped-terminal-node", f"terminal node {X!r} with outputs {outs} vanished together with what only it reaches: {sorted(got_core)} vs {sorted(want)}")
        if got_core != want:
            raise Violation("expand-structure-differs", f"{got_core} vs {want}")


class ExpandSingle(Harness):
    """A sink is replaced one-for-one by a template that consists of a single node with neither inputs nor outputs (it is a source
    and a sink at once); the input map names it, so it has to be spliced onto the expanded node's input."""

    name = "xform-expand-single"
    engine = "E1-crosshair"
    properties = ("C11",)
    rule = "one path = (name scheme, whether an input map is given, whether the producer has named outputs); non-trivial = all"
    assumptions = ["names from the look-alike palettes"]
    outside = []

    def shards(self, tier):
        return [{}]

    def budget(self, tier):
        return 60.0

    def bounds(self, tier):
        return {"graph": "producer -> X (a sink without outputs)", "template": "one node without inputs and outputs"}

    def functions(self):
        return [g_expand.expand_graph, g_expand.Splicer, g_transform.Transformer]

    def body(self, ch, params):
        with ch.untraced():
            names = list(ch.choose(NAME_SCHEMES, "names"))
            P, X = names[0], names[1]
            ch.assume(not P.startswith(X + "."))
            named = ch.flag("producer_has_named_outputs")
            use_map = ch.flag("input_map_given")
            prod = Node(P, outputs=["b", "a"], payload="pp") if named else Node(P, payload="pp")
            x = Node(X, outputs=[], payload="px", x=prod.get_output("a") if named else prod)
            g = Graph([x])
            tname = "only" if use_map else "x"

            def expander(node):
                if node.name != X:
                    return None
                sub = Graph([Node(tname, outputs=[], payload="tonly")])
                return (sub, {"only": "x"}, {}) if use_map else sub

            ch.note("graph", {"producer": P, "expanded": X, "input_map": use_map})
            ch.note("nontrivial", True)
            g2 = guarded("expand", lambda: g_expand.expand_graph(expander, g))
            got = guarded("expand-result-walk", lambda: graphgen.structure(g2))
            pouts = ("b", "a") if named else (Node.DEFAULT_OUTPUT,)
            want = {P: (pouts, repr("pp"), ()), f"{X}.{tname}": ((), repr("tonly"), (("input", P, "a" if named else Node.DEFAULT_OUTPUT),))}
            if got != want:
                raise Violation("expand-structure-differs", f"{got} vs {want}")


class SplitAncestry(Harness):
    """Key functions that look at where a node sits in the graph (its depth, what feeds it): every node lands in the part its key
    names on the graph as given, along chains and diamonds of up to five nodes."""

    name = "xform-split-ancestry"
    engine = "E1-crosshair"
    properties = ("C11",)
    rule = "one path = (chain or diamond shape of 2..5 nodes, key function from {depth parity, depth // 2, fed only by sources}); non-trivial = >=3 nodes"
    assumptions = ["names n0..n4"]
    outside = []
    KEYS = ["depth-parity", "depth-halved", "fed-only-by-sources"]

    def shards(self, tier):
        return [{"n": n} for n in range(2, 6)]

    def budget(self, tier):
        return 60.0

    def bounds(self, tier):
        return {"nodes": "2..5", "shapes": "chain, or chain with a second input from the first node", "keys": self.KEYS}

    def functions(self):
        return [g_split.split_graph, g_split.Splitter, g_transform.Transformer]

    def body(self, ch, params):
        with ch.untraced():
            n = params["n"]
            nodes = []
            for j in range(n):
                ins = {}
                if j > 0:
                    ins["x"] = nodes[j - 1].get_output()
                    if j >= 2 and ch.flag(f"also_reads_first{j}"):
                        ins["y"] = nodes[0].get_output()
                nodes.append(Node(f"n{j}", outputs=None if j < n - 1 else [], payload=f"p{j}", **ins))
            g = Graph([nodes[-1]])
            want_structure = graphgen.structure(g)
            mode = ch.choose(self.KEYS, "key")

            def depth(nd):
                return 1 + max([depth(s.parent) for s in nd.inputs.values()], default=-1)

            def keyf(nd):
                if mode == "depth-parity":
                    return depth(nd) % 2
                if mode == "depth-halved":
                    return depth(nd) // 2
                return "io" if all(not s.parent.inputs for s in nd.inputs.values()) else "compute"

            want = {nd.name: keyf(nd) for nd in nodes}  # on the graph as given
            ch.note("case", {"n": n, "key": mode, "want": {k: str(v) for k, v in want.items()}})
            ch.note("nontrivial", n >= 3)
            parts, cuts = guarded("split", lambda: g_split.split_graph(keyf, g))
            cutnames = {c.name for c in cuts}
            got = {}
            for k, pg in parts.items():
                for nd in pg.nodes():
                    if nd.name in cutnames:
                        continue
                    if nd.name in got:
                        raise Violation("split-node-in-two-parts", nd.name)
                    got[nd.name] = k
            if got != want:
                raise Violation("split-node-in-wrong-part", f"key {mode}: parts {got} but the key function says {want}")
            crossing = sum(1 for name, (outs, pl, ins) in want_structure.items() for (iname, parent, o) in ins if want[parent] != want[name])
            if len(cuts) != crossing:
                raise Violation("split-cut-count", f"{len(cuts)} cuts for {crossing} crossing edges")


class CutNames(Harness):
    """Two different edges that a split cuts get different cut names (the sink and the source that stand in for a cut edge
    are tied together by that name only), also when node, output and input names contain the characters the name is built with."""

    name = "xform-cutnames"
    engine = "E1-crosshair"
    properties = ("C11",)
    rule = "one path = a pair of cut edges (producer, output, consumer, input) with names from palettes of dotted look-alikes; non-trivial = the two edges differ"
    assumptions = ["names come from small palettes chosen so that different (producer, output) / (consumer, input) pairs spell the same dotted string"]
    outside = ["collisions of Python's hash() itself"]
    SRC = [("ens", "mean.0"), ("ens.mean", "0"), ("ens", "0"), ("a->b", "c"), ("a", "b->c")]
    DST = [("plot", "mean.in"), ("plot.mean", "in"), ("plot", "in"), ("x", "y"), ("x.y", "")]

    def shards(self, tier):
        return [{}]

    def budget(self, tier):
        return 60.0

    def bounds(self, tier):
        return {"producers": self.SRC, "consumers": self.DST}

    def functions(self):
        return [g_split.CutEdge]

    def body(self, ch, params):
        with ch.untraced():
            e = []
            for k in range(2):
                sn, so = ch.choose(self.SRC, f"src{k}")
                dn, di = ch.choose(self.DST, f"dst{k}")
                e.append(g_split.CutEdge(0, sn, so, 1, dn, di))
            ch.note("nontrivial", e[0] != e[1])
            ch.note("edges", [repr(x) for x in e])
            n0, n1 = guarded("cut-name", lambda: (e[0].name, e[1].name))
            if e[0] != e[1] and n0 == n1:
                raise Violation("distinct-cut-edges-share-a-name", f"{e[0]} and {e[1]} are both called {n0}: re-joining wires a consumer to the wrong producer")
            if e[0] == e[1] and n0 != n1:
                raise Violation("cut-name-not-a-function-of-the-edge", f"{e[0]}: {n0} vs {n1}")


register(CutNames())
register(SplitAncestry())
register(ExpandSingle())
register(Xform("xform-copy-rename", ["copy", "rename"]))
register(Xform("xform-dedup-fuse", ["dedup", "fuse"]))
register(Xform("xform-split-expand", ["split", "expand"]))


# ---------------------------------------------------------------------------------------------------------------------
# symbolic names: node, output and template names are solver variables (strings over a small alphabet)
# ---------------------------------------------------------------------------------------------------------------------
SYM_ALPHA = "a."  # two characters are enough to build names that are prefixes / suffixes / share characters with their parents
ATTR_ALPHA = "name"  # output names over these letters can spell an attribute of Node ("name")


class XformSymNames(Harness):
    """The names themselves are solver variables: one explored path stands for every name (within the length bound and
    alphabet) that drives the string handling of the transformers down the same branches."""

    name = "xform-symnames"
    engine = "E1-crosshair"
    properties = ("C11",)
    rule = ("one path = one feasible combination of branch outcomes of the string handling over symbolic node / output / template names; "
            "non-trivial = every path (all have >=2 nodes and a symbolic name)")
    assumptions = ["names are strings over the stated alphabet and length bound; node names unique; prefixed names do not collide with existing names (precondition of the prefixing scheme)"]
    outside = ["names longer than the bound or over other alphabets", "graphs other than the fixed 3-4 node shapes of this harness"]

    def shards(self, tier):
        t = tier == "thorough"
        out = [{"op": "expand", "xlen": 3 if t else 2, "llen": 3 if t else 2, "mode": m} for m in ("map", "nomap", "terminal")]
        out += [{"op": "rename", "len": 3 if t else 2}, {"op": "outputs", "len": 4, "via": "copy"}, {"op": "outputs", "len": 4, "via": "rename"},
                {"op": "outputs", "len": 4, "via": "expand-noop"}, {"op": "outputs", "len": 4, "via": "fuse-never"}, {"op": "outputs", "len": 4, "via": "split"},
                {"op": "outputs", "len": 4, "via": "dedup"}, {"op": "split", "len": 2}]
        return out

    def budget(self, tier):
        return 200.0 if tier == "quick" else 900.0

    def per_path_timeout(self, tier):
        return 60.0

    def bounds(self, tier):
        t = tier == "thorough"
        return {"node_name_alphabet": SYM_ALPHA, "node_name_len": "1..3" if t else "1..2", "output_name_alphabet": ATTR_ALPHA, "output_name_len": "1..4",
                "graphs": "source -> X -> consumer (+ sibling), template source -> leaf (+ inner sink)"}

    def functions(self):
        return [g_transform.Transformer, g_copy.copy_graph, g_rename.rename_nodes, g_dedup.deduplicate_nodes, g_fuse.fuse_nodes, g_split.split_graph, g_split.Splitter,
                g_expand.expand_graph, g_expand.Splicer, g_expand._Expander, g_expand._Subgraph]

    _paths = 0

    def body(self, ch, params):
        getattr(self, "sym_" + params["op"])(ch, params)
        # every completed path is a distinct set of branch outcomes over the symbolic names (CrossHair never repeats a path)
        XformSymNames._paths += 1
        ch.note("fingerprint", ("path", tuple(sorted(params.items())), XformSymNames._paths))

    # -- expand: X is replaced by  S -> L  (L is the leaf named by the output map, or by the same-name fallback) -----
    def sym_expand(self, ch, params):
        X = ch.str("X", params["xlen"], SYM_ALPHA)
        L = ch.str("L", params["llen"], SYM_ALPHA)
        ch.assume(len(X) >= 1 and len(L) >= 1)
        mode = params["mode"]
        sib = "c"  # consumer / sibling names are fixed and cannot collide: "c" is not in the alphabet
        src = Node("s", payload="ps")
        if mode == "terminal":
            # X is terminal and declares an output: its leaf must stay in the graph
            x = Node(X, payload="px", x=src)
            g = Graph([x])
        else:
            x = Node(X, payload="px", x=src)
            c = Node(sib, outputs=[], payload="pc", i=x)
            g = Graph([c])
        use_map = mode != "nomap"
        if not use_map:
            # without an output map the leaf is the sink named like the output
            ch.assume(L == Node.DEFAULT_OUTPUT)

        def expander(node):
            if node.name != X:
                return None
            s = Node("x", payload="tsrc")
            leaf = Node(L, outputs=[], payload="tleaf", i=s)
            inner = Node("c2", outputs=[], payload="tinner", i=s)
            sub = Graph([leaf, inner])
            if use_map:
                return sub, None, {Node.DEFAULT_OUTPUT: L}
            return sub

        g2 = guarded("expand", lambda: g_expand.expand_graph(expander, g))
        st = guarded("expand-result-walk", lambda: graphgen.structure(g2))
        leafname = X + "." + L
        want = {
            "s": ((Node.DEFAULT_OUTPUT,), repr("ps"), ()),
            X + ".x": ((Node.DEFAULT_OUTPUT,), repr("tsrc"), (("input", "s", Node.DEFAULT_OUTPUT),)),
            leafname: ((Node.DEFAULT_OUTPUT,), repr("tleaf"), (("i", X + ".x", Node.DEFAULT_OUTPUT),)),
            X + ".c2": ((), repr("tinner"), (("i", X + ".x", Node.DEFAULT_OUTPUT),)),
        }
        if mode != "terminal":
            want[sib] = ((), repr("pc"), (("i", leafname, Node.DEFAULT_OUTPUT),))
            # a sink of the template that no consumer of X reaches is not a sink of the input graph: the result may leave it
            # out (it does), but if present it must be wired as above
            if (X + ".c2") not in st:
                del want[X + ".c2"]
        if st != want:
            raise Violation("expand-structure-differs", "result of expanding a node with a solver-chosen name differs from the documented wiring")

    # -- rename: three nodes with symbolic names, an injective renaming ---------------------------------------------
    def sym_rename(self, ch, params):
        A = ch.str("A", params["len"], SYM_ALPHA)
        B = ch.str("B", params["len"], SYM_ALPHA)
        ch.assume(A != B)
        a = Node(A, payload="pa")
        b = Node(B, outputs=["o", "p"], payload="pb", x=a)
        c = Node("c", outputs=[], payload="pc", i=b.get_output("p"), j=a)
        g = Graph([c])
        which = ch.pick(2, "renamer")
        rf = (lambda n: "r." + n) if which == 0 else (lambda n: n + ".")
        g2 = guarded("rename", lambda: g_rename.rename_nodes(rf, g))
        st = guarded("rename-result-walk", lambda: graphgen.structure(g2))
        want = {
            rf(A): ((Node.DEFAULT_OUTPUT,), repr("pa"), ()),
            rf(B): (("o", "p"), repr("pb"), (("x", rf(A), Node.DEFAULT_OUTPUT),)),
            rf("c"): ((), repr("pc"), tuple(sorted([("i", rf(B), "p"), ("j", rf(A), Node.DEFAULT_OUTPUT)]))),
        }
        if st != want:
            raise Violation("rename-structure-differs", "renaming nodes with solver-chosen names changed more than the names")

    # -- an output with a symbolic name, read by a consumer, through every transformation ------------------------------
    def sym_outputs(self, ch, params):
        O = ch.str("O", params["len"], ATTR_ALPHA)
        ch.assume(len(O) >= 1)
        via = params["via"]
        p = Node("p", outputs=[O, "zz"], payload="pp")
        c = Node("c", outputs=[], payload="pc", i=p.get_output(O))
        d = Node("d", outputs=[], payload="pd", i=p.get_output("zz"))
        g = Graph([c, d])
        want = {"p": ((O, "zz"), repr("pp"), ()), "c": ((), repr("pc"), (("i", "p", O),)), "d": ((), repr("pd"), (("i", "p", "zz"),))}
        if via == "copy":
            g2 = guarded("copy", lambda: g_copy.copy_graph(g))
        elif via == "rename":
            g2 = guarded("rename", lambda: g_rename.rename_nodes(lambda n: n, g))
        elif via == "expand-noop":
            g2 = guarded("expand", lambda: g_expand.expand_graph(lambda n: None, g))
        elif via == "fuse-never":
            g2 = guarded("fuse", lambda: g_fuse.fuse_nodes(lambda *a: None, g))
        elif via == "dedup":
            g2 = guarded("dedup", lambda: g_dedup.deduplicate_nodes(g))
        elif via == "split":
            parts, cuts = guarded("split", lambda: g_split.split_graph(lambda nd: 0, g))
            if len(parts) != 1 or cuts:
                raise Violation("split-one-colour-made-cuts")
            g2 = parts[0]
        st = guarded(f"{via}-result-walk", lambda: graphgen.structure(g2))
        if st != want:
            raise Violation(f"{via}-structure-differs", "an output with a solver-chosen name is no longer what its consumer reads")

    # -- split: the cut edge must name the producer and its output ----------------------------------------------------
    def sym_split(self, ch, params):
        A = ch.str("A", params["len"], SYM_ALPHA)
        O = ch.str("O", params["len"], SYM_ALPHA)
        ch.assume(len(A) >= 1 and len(O) >= 1)
        a = Node(A, outputs=[O, "zz"], payload="pa")
        c = Node("c", outputs=[], payload="pc", i=a.get_output(O))
        g = Graph([c])
        parts, cuts = guarded("split", lambda: g_split.split_graph(lambda nd: 1 if nd.name == "c" else 0, g))
        if len(cuts) != 1:
            raise Violation("split-cut-count", f"{len(cuts)}")
        cut = cuts[0]
        if not (cut.source_node == A and cut.source_output == O and cut.dest_node == "c" and cut.dest_input == "i"):
            raise Violation("split-cut-edge-misreported", "cut edge does not name the producer/output/consumer/input it replaces")
        names0 = sorted(n.name for n in parts[0].nodes())
        names1 = sorted(n.name for n in parts[1].nodes())
        if sorted(x for x in names0 if x != cut.name) != [A] or sorted(x for x in names1 if x != cut.name) != ["c"]:
            raise Violation("split-node-in-wrong-part", f"{names0} / {names1}")


register(XformSymNames())
