"""C02 (worker side) -- the receive loop of runner.entrypoint.entrypoint, lifted from the AST of the current source into a
step function, driven with every order of command / publication / purge messages."""

from __future__ import annotations

import ast
import inspect
import itertools

from vf import repo_env
from vf.engine_xh import HarnessError, Violation
from vf.runner import Harness, register

repo_env.setup()
import cascade.executor.runner.entrypoint as entrypoint  # noqa: E402
from cascade.executor import msg as M  # noqa: E402
from cascade.low.core import DatasetId, JobInstance, TaskDefinition, TaskInstance, WorkerId  # noqa: E402


class _BreakToReturn(ast.NodeTransformer):
    def visit_Break(self, node):
        return ast.copy_location(ast.Return(value=ast.Constant("break")), node)

    def visit_While(self, node):  # inner loops keep their own breaks
        return node

    def visit_For(self, node):
        return node


def lift_loop():
    """Build make_stepper(runnerContext, memory, pckg) -> step(message) from the current source of entrypoint()."""
    src = inspect.getsource(entrypoint.entrypoint)
    fn = ast.parse(src).body[0]
    loops = [n for n in ast.walk(fn) if isinstance(n, ast.While) and isinstance(n.test, ast.Constant) and n.test.value is True]
    if len(loops) != 1:
        raise HarnessError(f"expected exactly one `while True` in entrypoint(), found {len(loops)}")
    loop = loops[0]
    body = list(loop.body)
    # the first statements read and decode one message: mRaw = socket.recv(); mDes = serde.des_message(mRaw)
    reads = [s for s in body[:2] if isinstance(s, ast.Assign) and isinstance(s.targets[0], ast.Name) and s.targets[0].id in ("mRaw", "mDes")]
    if len(reads) != 2:
        raise HarnessError("the receive loop no longer starts with `mRaw = socket.recv(); mDes = serde.des_message(mRaw)`")
    rest = [_BreakToReturn().visit(s) for s in body[2:]]
    # loop-carried state: the (annotated) assignments right before the loop inside the same block
    state = {}
    for parent in ast.walk(fn):
        for field in ("body",):
            stmts = getattr(parent, field, None)
            if isinstance(stmts, list) and loop in stmts:
                i = stmts.index(loop)
                j = i - 1
                while j >= 0 and isinstance(stmts[j], (ast.AnnAssign, ast.Assign)):
                    s = stmts[j]
                    tgt = s.target if isinstance(s, ast.AnnAssign) else s.targets[0]
                    if isinstance(tgt, ast.Name) and s.value is not None:
                        state[tgt.id] = ast.unparse(s.value)
                    j -= 1
    if set(state) != {"availab_ds", "waiting_ts", "missing_ds"}:
        raise HarnessError(f"loop state changed: {sorted(state)}")
    code = "def make_stepper(runnerContext, memory, pckg):\n"
    for k, v in state.items():
        code += f"    {k} = {v}\n"
    code += "    def step(mDes):\n        nonlocal " + ", ".join(state) + "\n"
    for s in rest:
        code += "\n".join("        " + line for line in ast.unparse(s).split("\n")) + "\n"
    code += "        return None\n    return step\n"
    return code


class RecMemory:
    def __init__(self, published):
        self.published, self.provided, self.popped = published, [], []

    def provide(self, ds, annotation):
        if ds not in self.published:
            raise Violation("worker-read-dataset-that-has-not-arrived", repr(ds))
        self.provided.append(ds)
        return "v"

    def pop(self, ds):
        self.popped.append(ds)

    def flush(self):
        pass


D1, D2, DX, OWN = DatasetId("p1", "0"), DatasetId("p2", "0"), DatasetId("zz", "0"), DatasetId("t", "0")
W = WorkerId("h0", "w0")
PALETTE = ["task-sequence", "published-d1", "published-d2", "published-unrelated", "purge-unrelated", "published-own-output"]


class Worker(Harness):
    name = "worker-wakeup"
    engine = "E1-crosshair"
    properties = ("C02",)
    rule = "one path = an arrival order of <=5 messages (command, publications of its two inputs, unrelated publication/purge, own output); non-trivial = the command arrives before at least one of its inputs"
    assumptions = ["the loop body is lifted from the AST of the current entrypoint() source; Memory and execute_sequence are recorders",
                   "the controller never purges an input of a task that has not run (C04), so only unrelated purges arrive"]
    outside = ["two sequences in flight for one worker beyond the explicit 'double task sequence' error", "persistent-worker memory management"]

    def shards(self, tier):
        L = 5 if tier == "quick" else 7
        return [{"len": n, "_prefix": [k]} for n in range(1, L + 1) for k in range(len(PALETTE))]

    def budget(self, tier):
        return 60.0 if tier == "quick" else 600.0

    def bounds(self, tier):
        return {"messages": "1..5" if tier == "quick" else "1..7", "palette": PALETTE}

    def functions(self):
        return [entrypoint.entrypoint]

    def body(self, ch, params):
        with ch.untraced():
            code = lift_loop()
            started = []
            g = dict(entrypoint.__dict__)
            published: set = set()
            mem = RecMemory(published)

            def fake_execute_sequence(ts, memory, pckg, ctx):
                started.append((ts, set(published)))

            g["execute_sequence"] = fake_execute_sequence
            exec(compile(code, "<lifted entrypoint loop>", "exec"), g)
            d = TaskDefinition(func=None, entrypoint="builtins.len", environment=[], input_schema={}, output_schema={"0": "Any"})
            job = JobInstance(tasks={"t": TaskInstance(definition=d, static_input_kw={}, static_input_ps={}),
                                     "p1": TaskInstance(definition=d, static_input_kw={}, static_input_ps={}),
                                     "p2": TaskInstance(definition=d, static_input_kw={}, static_input_ps={})}, edges=[])
            ctx = entrypoint.RunnerContext(workerId=W, job=job, callback="cb", param_source={"t": {0: D1, 1: D2}, "p1": {}, "p2": {}})
            step = g["make_stepper"](ctx, mem, None)
            ts = M.TaskSequence(worker=W, tasks=["t"], publish={OWN})
            seq = []
            sent_ts = False
            for i in range(params["len"]):
                k = PALETTE[ch.pick(len(PALETTE), f"m{i}")]
                if k == "task-sequence":
                    ch.assume(not sent_ts)  # a second command while one is pending is an explicit error of the protocol
                    sent_ts = True
                if k == "published-own-output":
                    ch.assume(bool(started))
                seq.append(k)
                msg = {"task-sequence": ts, "published-d1": M.DatasetPublished(origin="h0", ds=D1, transmit_idx=None), "published-d2": M.DatasetPublished(origin=W, ds=D2, transmit_idx=None),
                       "published-unrelated": M.DatasetPublished(origin=W, ds=DX, transmit_idx=None), "purge-unrelated": M.DatasetPurge(ds=DX),
                       "published-own-output": M.DatasetPublished(origin=W, ds=OWN, transmit_idx=None)}[k]
                if isinstance(msg, M.DatasetPublished):
                    published.add(msg.ds)
                try:
                    step(msg)
                except Violation:
                    raise
                except Exception as e:
                    raise Violation("worker-loop-raised", f"{type(e).__name__}: {e} after {seq}")
            ch.note("sequence", seq)
            early = sent_ts and (seq.index("task-sequence") < max([seq.index(x) for x in ("published-d1", "published-d2") if x in seq] + [-1]))
            ch.note("nontrivial", bool(early))
            if len(started) > 1:
                raise Violation("task-sequence-started-twice", str(seq))
            for ts_, have in started:
                if not {D1, D2} <= have:
                    raise Violation("task-started-before-inputs-arrived", f"{seq}: had {sorted(map(repr, have))}")
            if sent_ts and {D1, D2} <= published and len(started) != 1:
                raise Violation("lost-wake-up", f"command and both inputs arrived ({seq}) but the sequence never started")
            if not sent_ts and started:
                raise Violation("started-without-command", str(seq))


register(Worker())
