"""E1 -- CrossHair driven as a library: solver-decided path exploration of real functions.

A harness body is ``body(ch, params)``.  ``ch`` is a Chooser:

* ``ch.pick(n, label)``  -> concrete int in range(n); every alternative is a solver-decided fork
* ``ch.flag(label)``     -> concrete bool (fork)
* ``ch.int(label, lo, hi)`` -> *symbolic* int (stays symbolic; all values on the path covered at once)
* ``ch.str(label, maxlen, alphabet)`` -> *symbolic* str
* ``ch.assume(cond)``    -> path ignored unless cond

The body signals a property violation by raising ``Violation(key, msg)`` (or any AssertionError).
Anything else escaping the body that derives from Exception is a *harness crash* unless the body
converts it.  CrossHair steers with BaseException subclasses, which are never caught here.

Exploration stops when CrossHair's search tree reports exhaustion (every feasible decision sequence
was run), or when the budget is hit (reported as non-exhaustive, never as success-with-exhaustion).

The same body is run natively (no tracer) with a ReplayChooser fed the realised decisions to confirm a
counterexample before it is reported.
"""

from __future__ import annotations

import json
import os
import sys
import time
import traceback
from dataclasses import dataclass, field
from typing import Any, Callable

import z3


class Violation(AssertionError):
    def __init__(self, key: str, msg: str = ""):
        super().__init__(f"{key}: {msg}" if msg else key)
        self.key = key
        self.msg = msg


class HarnessError(Exception):
    """The harness cannot follow the source any more (or a stub misbehaved). Never a pass."""


class ReplayMismatch(Exception):
    pass


class deadline:
    """`with deadline(20, "precompute-did-not-terminate"):` -- an untraced region of the code under test that has not returned after
    `seconds` of wall time raises Violation(key).  (CrossHair's own per-path deadline is only checked while tracing.)  Only
    for regions that take milliseconds on the unchanged tree."""

    def __init__(self, seconds: float, key: str):
        self.seconds, self.key = seconds, key

    def __enter__(self):
        import signal
        import threading

        self.active = threading.current_thread() is threading.main_thread()
        if self.active:
            def on_alarm(signum, frame):
                raise Violation(self.key, f"no result after {self.seconds} s")

            self.old = signal.signal(signal.SIGALRM, on_alarm)
            signal.setitimer(signal.ITIMER_REAL, self.seconds)
        return self

    def __exit__(self, *a):
        if self.active:
            import signal

            signal.setitimer(signal.ITIMER_REAL, 0)
            signal.signal(signal.SIGALRM, self.old)
        return False


# ----------------------------------------------------------------------------------------------
# solver accounting
# ----------------------------------------------------------------------------------------------
SOLVER_STATS = {"queries": 0, "seconds": 0.0, "unknown": 0}
_orig_check = z3.Solver.check


def _counting_check(self, *a, **kw):
    t0 = time.perf_counter()
    try:
        r = _orig_check(self, *a, **kw)
    finally:
        SOLVER_STATS["seconds"] += time.perf_counter() - t0
        SOLVER_STATS["queries"] += 1
    if r == z3.unknown:
        SOLVER_STATS["unknown"] += 1
    return r


z3.Solver.check = _counting_check  # type: ignore


# ----------------------------------------------------------------------------------------------
# opaque formatting of symbolic values
# ----------------------------------------------------------------------------------------------
# CrossHair realises every value that goes through an f-string / format() / repr().  The code under test
# formats its state into log and exception messages all the time (logging is disabled, but f-strings are
# evaluated eagerly); each such realisation would turn one symbolic path into an endless enumeration of concrete
# values.  With OPAQUE_FORMAT on, formatting anything that *contains* a symbolic value yields the placeholder
# "<sym>" instead (symbolic strings with an empty format spec stay symbolic, as in CrossHair itself).
# Assumption recorded in every evidence file: message texts built from symbolic data do not influence behaviour.
OPAQUE_FORMAT = True
_fmt_installed = False


def _has_symbolic(obj, depth=4) -> bool:
    from crosshair.util import CrossHairValue
    import dataclasses

    if isinstance(obj, CrossHairValue):
        return True
    if depth <= 0 or obj is None or type(obj) in (int, str, bool, float, bytes):
        return False
    if isinstance(obj, dict):
        return any(_has_symbolic(k, depth - 1) or _has_symbolic(v, depth - 1) for k, v in dict.items(obj))
    if isinstance(obj, (list, tuple, set, frozenset)):
        return any(_has_symbolic(v, depth - 1) for v in obj)
    d = getattr(obj, "__dict__", None)
    if isinstance(d, dict) and not isinstance(obj, type):
        return any(_has_symbolic(v, depth - 1) for v in d.values())
    return False


def install_opaque_format():
    global _fmt_installed
    if _fmt_installed:
        return
    _fmt_installed = True
    import crosshair.core as core
    import crosshair.libimpl.builtinslib as bl
    from crosshair.tracers import NoTracing

    orig_format, orig_repr = core._PATCH_REGISTRATIONS[format], core._PATCH_REGISTRATIONS[repr]

    def fmt(obj, format_spec=""):
        if OPAQUE_FORMAT:
            with NoTracing():
                if isinstance(obj, bl.AnySymbolicStr) and format_spec in ("", "s"):
                    return obj
                if _has_symbolic(obj):
                    return "<sym>"
        return orig_format(obj, format_spec)

    def rep(obj):
        if OPAQUE_FORMAT:
            with NoTracing():
                sym = _has_symbolic(obj) and not isinstance(obj, bl.AnySymbolicStr)
            if sym:
                return "<sym>"
        return orig_repr(obj)

    core._PATCH_REGISTRATIONS[format] = fmt
    core._PATCH_REGISTRATIONS[repr] = rep


# ----------------------------------------------------------------------------------------------
# choosers
# ----------------------------------------------------------------------------------------------
class BaseChooser:
    symbolic = False

    def pick(self, n: int, label: str = "") -> int:
        raise NotImplementedError

    def flag(self, label: str = "") -> bool:
        return self.pick(2, label) == 1

    def int(self, label: str = "", lo: int | None = None, hi: int | None = None):
        raise NotImplementedError

    def str(self, label: str = "", maxlen: int = 2, alphabet: str | None = None):
        raise NotImplementedError

    def assume(self, cond) -> None:
        raise NotImplementedError

    def choose(self, seq, label: str = ""):
        seq = list(seq)
        return seq[self.pick(len(seq), label)]

    def subset(self, seq, label: str = ""):
        return [x for i, x in enumerate(seq) if self.flag(f"{label}[{i}]")]

    def note(self, key: str, value: Any) -> None:
        """Attach a harness-computed description to the path (for samples)."""
        self.notes[key] = value


class SymbolicChooser(BaseChooser):
    symbolic = True

    def __init__(self, prefix=None):
        self.log: list[list] = []  # [kind, label, value-or-proxy]
        self.notes: dict[str, Any] = {}
        self._n = 0
        self.prefix = list(prefix or [])  # forced values of the first picks (case split across shards)
        self._npick = 0

    def _name(self, label):
        self._n += 1
        return f"{label or 'v'}_{self._n}"

    def _sym_int(self, label, lo=None, hi=None):
        # NOTE proxy_for_type(int) is *not* used: it forks a "premature realisation" branch that enumerates
        # concrete values forever, so the search tree would never be exhausted.
        from crosshair.libimpl.builtinslib import SymbolicBoundedInt
        from crosshair.tracers import NoTracing

        with NoTracing():
            return SymbolicBoundedInt(self._name(label), int, lo, hi)

    def untraced(self):
        """Context manager: run a region into which no solver variable flows at native speed."""
        from crosshair.tracers import NoTracing

        return NoTracing()

    def pick(self, n: int, label: str = "") -> int:
        from crosshair.tracers import ResumedTracing, is_tracing

        if not is_tracing():
            with ResumedTracing():
                return self.pick(n, label)
        if n <= 0:
            raise HarnessError(f"pick({n}) at {label}")
        self._npick += 1
        if self._npick <= len(self.prefix):
            v = self.prefix[self._npick - 1]
            if not (0 <= v < n):
                raise HarnessError(f"shard prefix value {v} out of range {n} at {label}")
            self.log.append(["pick", label, v])
            return v
        if n == 1:
            self.log.append(["pick", label, 0])
            return 0
        v = self._sym_int(label, 0, n - 1)
        # binary split keeps the fork depth logarithmic
        lo, hi = 0, n - 1
        while lo < hi:
            mid = (lo + hi) // 2
            if v <= mid:
                hi = mid
            else:
                lo = mid + 1
        self.log.append(["pick", label, lo])
        return lo

    def int(self, label: str = "", lo=None, hi=None):
        v = self._sym_int(label, lo, hi)
        self.log.append(["int", label, v])
        return v

    def str(self, label: str = "", maxlen: int = 2, alphabet: str | None = None):
        from crosshair.libimpl.builtinslib import LazyIntSymbolicStr
        from crosshair.tracers import NoTracing

        with NoTracing():
            v = LazyIntSymbolicStr(self._name(label), str)
        if not (len(v) <= maxlen):
            self.assume(False)
        if alphabet is not None:
            for c in v:
                if c not in alphabet:
                    self.assume(False)
        self.log.append(["str", label, v])
        return v

    def assume(self, cond) -> None:
        if not cond:
            from crosshair.util import IgnoreAttempt

            raise IgnoreAttempt("assumption")


class ReplayChooser(BaseChooser):
    def untraced(self):
        import contextlib

        return contextlib.nullcontext()

    def __init__(self, log: list[list]):
        self.src = list(log)
        self.i = 0
        self.log = []
        self.notes = {}

    def _next(self, kind, label):
        if self.i >= len(self.src):
            raise ReplayMismatch(f"log exhausted at {kind} {label}")
        k, l, v = self.src[self.i]
        self.i += 1
        if k != kind:
            raise ReplayMismatch(f"expected {kind} {label}, log has {k} {l}")
        self.log.append([k, l, v])
        return v

    def pick(self, n, label=""):
        v = self._next("pick", label)
        if not (0 <= v < n):
            raise ReplayMismatch(f"pick {v} out of range {n} at {label}")
        return v

    def int(self, label="", lo=None, hi=None):
        v = self._next("int", label)
        if (lo is not None and v < lo) or (hi is not None and v > hi):
            raise ReplayMismatch("int out of range")
        return v

    def str(self, label="", maxlen=2, alphabet=None):
        return self._next("str", label)

    def assume(self, cond):
        if not cond:
            raise ReplayMismatch("assumption false on replay")


class _NeedArity(BaseException):
    def __init__(self, n):
        self.n = n


class ProbeChooser(BaseChooser):
    """Runs a body natively along a forced prefix of picks to learn the arity of the next pick."""

    def __init__(self, prefix):
        self.prefix, self.i, self.log, self.notes = list(prefix), 0, [], {}

    def untraced(self):
        import contextlib

        return contextlib.nullcontext()

    def pick(self, n, label=""):
        if self.i < len(self.prefix):
            v = self.prefix[self.i]
            self.i += 1
            return v
        raise _NeedArity(n)

    def int(self, label="", lo=None, hi=None):
        return lo if lo is not None else (hi if hi is not None else 0)

    def str(self, label="", maxlen=2, alphabet=None):
        return ""

    def assume(self, cond):
        if not cond:
            raise _NeedArity(0)


def split_prefixes(body, params, target: int, max_depth: int = 6) -> list[list[int]]:
    """Case-split the leading picks of body(ch, params) into >= target prefixes (breadth first)."""
    frontier = [[]]
    done = []
    while frontier and len(frontier) + len(done) < target:
        p = frontier.pop(0)
        if len(p) >= max_depth:
            done.append(p)
            continue
        try:
            body(ProbeChooser(p), params)
            done.append(p)  # body finished without needing more picks
        except _NeedArity as na:
            if na.n == 0:
                done.append(p)  # an assumption over dummy values says nothing about feasibility: keep the prefix, do not split further
                continue
            frontier.extend(p + [v] for v in range(na.n))
        except Exception:
            done.append(p)  # let the real exploration report it
    return done + frontier


# ----------------------------------------------------------------------------------------------
# results
# ----------------------------------------------------------------------------------------------
@dataclass
class Failure:
    key: str
    msg: str
    log: list
    notes: dict
    params: Any
    reproduced: bool | None = None
    replay_msg: str = ""


@dataclass
class ShardResult:
    params: Any
    paths: int = 0
    reached: int = 0  # completed paths (reached the end of body, all assertions evaluated)
    ignored: int = 0
    unknown: int = 0
    exhausted: bool = False
    failures: list = field(default_factory=list)
    crashes: list = field(default_factory=list)  # harness errors (strings)
    samples: list = field(default_factory=list)
    solver_queries: int = 0
    solver_seconds: float = 0.0
    solver_unknown: int = 0
    cpu_s: float = 0.0
    wall_s: float = 0.0
    nontrivial: int = 0
    fingerprints: int = 0
    stop_reason: str = ""


def _jsonable(x):
    try:
        json.dumps(x)
        return x
    except Exception:
        if isinstance(x, dict):
            return {str(k): _jsonable(v) for k, v in x.items()}
        if isinstance(x, (list, tuple, set, frozenset)):
            return [_jsonable(v) for v in x]
        return repr(x)


def explore(
    body: Callable[[BaseChooser, Any], Any],
    params: Any,
    budget_s: float = 60.0,
    max_paths: int = 10**9,
    per_path_timeout: float = 30.0,
    max_failures: int = 4,
    n_samples: int = 2,
    seed: int = 0,
) -> ShardResult:
    """Explore all feasible paths of body(ch, params) under CrossHair; one shard."""
    import crosshair.core_and_libs  # noqa: F401  (registers patches)

    install_opaque_format()
    from crosshair.condition_parser import condition_parser
    from crosshair.core import ExceptionFilter, Patched, deep_realize
    from crosshair.options import AnalysisKind
    from crosshair.statespace import (
        CallAnalysis,
        NotDeterministic,
        RootNode,
        StateSpace,
        StateSpaceContext,
        VerificationStatus,
    )
    from crosshair.tracers import COMPOSITE_TRACER, NoTracing, ResumedTracing
    from crosshair.util import IgnoreAttempt, UnexploredPath

    res = ShardResult(params=params)
    root = RootNode()
    try:
        root._random.seed(seed)
    except Exception:
        pass
    q0, s0, u0 = SOLVER_STATS["queries"], SOLVER_STATS["seconds"], SOLVER_STATS["unknown"]
    t_cpu0, t_wall0 = time.process_time(), time.perf_counter()
    seen_fp: set = set()
    failure_keys: dict[str, int] = {}

    while True:
        if res.paths >= max_paths:
            res.stop_reason = "max_paths"
            break
        now = time.process_time()
        if now - t_cpu0 > budget_s:
            res.stop_reason = "budget"
            break
        space = StateSpace(
            execution_deadline=now + per_path_timeout,
            model_check_timeout=per_path_timeout / 2,
            search_root=root,
        )
        ch = SymbolicChooser(params.get("_prefix") if isinstance(params, dict) else None)
        status = None
        with condition_parser([AnalysisKind.PEP316]), Patched(), COMPOSITE_TRACER, NoTracing(), StateSpaceContext(space):
            try:
                fail: tuple | None = None
                crash: str | None = None
                with ExceptionFilter() as efilter, ResumedTracing():
                    try:
                        body(ch, params)
                    except Violation as v:
                        fail = (v.key, v.msg)
                    except AssertionError as a:
                        tb = traceback.extract_tb(a.__traceback__)
                        where = f"{os.path.basename(tb[-1].filename)}:{tb[-1].lineno}" if tb else "?"
                        fail = (f"assert@{where}", str(a)[:300])
                    except HarnessError as h:
                        crash = f"HarnessError: {h}"
                    except (IgnoreAttempt, UnexploredPath, NotDeterministic):
                        raise
                    except Exception as e:
                        # anything else escaping the body is a harness crash; the body is expected to
                        # translate exceptions of the code under test into Violations itself
                        tbs = "".join(traceback.format_exception(type(e), e, e.__traceback__)[-6:])
                        crash = f"{type(e).__name__}: {str(e)[:200]}\n{tbs[-1500:]}"
                if efilter.user_exc is not None:
                    exc = efilter.user_exc[0]
                    if isinstance(exc, NotDeterministic):
                        raise NotDeterministic
                    raise UnexploredPath  # should not happen: we caught Exception above
                if efilter.ignore:
                    raise IgnoreAttempt("ignored")
                res.reached += 1
                need_log = (fail is not None and failure_keys.get(fail[0], 0) < 2) or crash is not None or len(res.samples) < n_samples
                with ResumedTracing():
                    fpnote = ch.notes.get("fingerprint")
                    nontriv = ch.notes.get("nontrivial", True)
                if fpnote is None:
                    fpnote = tuple((k, l, v) for k, l, v in ch.log if k == "pick")
                try:
                    fpk = hash(repr(fpnote))
                except Exception:
                    fpk = res.paths
                if fpk not in seen_fp:
                    seen_fp.add(fpk)
                    if nontriv:
                        res.nontrivial += 1
                if need_log:
                    with ResumedTracing():
                        space.detach_path()
                        log = deep_realize(ch.log)
                        notes = deep_realize(ch.notes)
                    log = _jsonable(log)
                    notes = _jsonable(notes)
                    if fail is not None:
                        k = fail[0]
                        failure_keys[k] = failure_keys.get(k, 0) + 1
                        if failure_keys[k] <= 2 and len(res.failures) < 64:
                            res.failures.append(Failure(key=k, msg=fail[1], log=log, notes=notes, params=params))
                    elif crash is not None:
                        if len(res.crashes) < 5:
                            res.crashes.append({"crash": crash, "log": log, "params": _jsonable(params)})
                    elif len(res.samples) < n_samples:
                        res.samples.append({"params": _jsonable(params), "choices": [[k, l, v] for k, l, v in log], "notes": notes})
                elif fail is not None:
                    failure_keys[fail[0]] = failure_keys.get(fail[0], 0) + 1
                status = VerificationStatus.CONFIRMED
            except IgnoreAttempt:
                res.ignored += 1
                status = None
            except NotDeterministic:
                res.crashes.append({"crash": "NotDeterministic", "params": _jsonable(params)})
                res.unknown += 1
                status = VerificationStatus.UNKNOWN
                res.paths += 1
                res.stop_reason = "not_deterministic"
                space.bubble_status(CallAnalysis(status))
                break
            except UnexploredPath:
                res.unknown += 1
                status = VerificationStatus.UNKNOWN
            _, exhausted = space.bubble_status(CallAnalysis(status))
        res.paths += 1
        if exhausted:
            res.exhausted = True
            res.stop_reason = "exhausted"
            break
        if len(failure_keys) >= max_failures or any(v >= 8 for v in failure_keys.values()):
            res.stop_reason = "max_failures"
            break
        if len(res.crashes) >= 3:
            res.stop_reason = "crashes"
            break
    res.failure_counts = dict(failure_keys)  # type: ignore[attr-defined]
    res.solver_queries = SOLVER_STATS["queries"] - q0
    res.solver_seconds = SOLVER_STATS["seconds"] - s0
    res.solver_unknown = SOLVER_STATS["unknown"] - u0
    res.cpu_s = time.process_time() - t_cpu0
    res.wall_s = time.perf_counter() - t_wall0
    res.fingerprints = len(seen_fp)
    # an exhausted tree with unknown paths is not a complete enumeration
    if res.unknown:
        res.exhausted = False
    return res


def replay(body, params, log) -> tuple[bool, str, str]:
    """Run body natively with the recorded decisions. Returns (violated, key, message)."""
    ch = ReplayChooser(log)
    try:
        body(ch, params)
    except Violation as v:
        return True, v.key, v.msg
    except AssertionError as a:
        tb = traceback.extract_tb(a.__traceback__)
        where = f"{os.path.basename(tb[-1].filename)}:{tb[-1].lineno}" if tb else "?"
        return True, f"assert@{where}", str(a)[:300]
    except ReplayMismatch as r:
        return False, "replay-mismatch", str(r)
    except HarnessError as h:
        return False, "harness-error", str(h)
    except Exception as e:
        return False, "crash", f"{type(e).__name__}: {e}"
    return False, "", ""
