"""E3 -- "symreal": numpy object arrays whose elements are z3 Real terms flow through the real backends / payloads.

* ``Q`` wraps a z3 Real term and implements the arithmetic numpy's object loops need.
* Comparisons return a ``QBool`` whose truth value is decided by the solver under the current path condition;
  when both outcomes are feasible the explorer (concolic DFS) follows one and schedules the other.
* ``sqrt`` is an uninterpreted function: equal arguments give equal roots (congruence), nothing else is assumed.
* A result is compared with a reference term by asking z3 for a model of ``path_condition and result != reference``.

Reals, not floats: re-association changes IEEE results for every batching of a sum, so "batching never changes the
values" can only be meant over exact arithmetic.  Rounding is outside the claim.
"""

from __future__ import annotations

import time
from fractions import Fraction

import numpy as np
import z3

SQRT = z3.Function("sqrt", z3.RealSort(), z3.RealSort())
POW = z3.Function("pow", z3.RealSort(), z3.RealSort(), z3.RealSort())

STATS = {"queries": 0, "seconds": 0.0, "unknown": 0}
TIMEOUT_MS = 30_000


class Unsupported(Exception):
    pass


class Explorer:
    """Concolic DFS over comparison outcomes."""

    def __init__(self):
        self.solver = z3.Solver()
        self.solver.set("timeout", TIMEOUT_MS)
        self.prefix: list[bool] = []
        self.trail: list[tuple[bool, bool]] = []  # (decision, other branch feasible)
        self.pos = 0
        self.cond: list = []

    def begin(self, prefix):
        self.solver.reset()
        self.solver.set("timeout", TIMEOUT_MS)
        self.prefix, self.trail, self.pos, self.cond = list(prefix), [], 0, []

    def _check(self, *extra):
        t0 = time.perf_counter()
        r = self.solver.check(*extra)
        STATS["seconds"] += time.perf_counter() - t0
        STATS["queries"] += 1
        if r == z3.unknown:
            STATS["unknown"] += 1
        return r

    def decide(self, expr) -> bool:
        expr = z3.simplify(expr)
        if z3.is_true(expr):
            return True
        if z3.is_false(expr):
            return False
        if self.pos < len(self.prefix):
            d = self.prefix[self.pos]
            other = True  # already known when the prefix was built
            self.trail.append((d, False))  # siblings of a replayed prefix were scheduled before
        else:
            can_t = self._check(expr) != z3.unsat
            can_f = self._check(z3.Not(expr)) != z3.unsat
            if can_t:
                d, other = True, can_f
            else:
                d, other = False, False
            self.trail.append((d, other))
        self.pos += 1
        c = expr if d else z3.Not(expr)
        self.solver.add(c)
        self.cond.append(c)
        return d


EXPLORER = Explorer()


def explore_all(fn, max_paths=2048):
    """Run fn() once per feasible sequence of comparison outcomes. Yields (result, path_condition)."""
    stack = [[]]
    n = 0
    while stack:
        prefix = stack.pop()
        EXPLORER.begin(prefix)
        res = fn()
        trail = list(EXPLORER.trail)
        cond = list(EXPLORER.cond)
        for i in range(len(prefix), len(trail)):
            d, other = trail[i]
            if other:
                stack.append([t[0] for t in trail[:i]] + [not d])
        n += 1
        yield res, cond
        if n >= max_paths:
            raise Unsupported(f"more than {max_paths} comparison paths")


class QBool:
    def __init__(self, e):
        self.e = e

    def __bool__(self):
        return EXPLORER.decide(self.e)

    def __and__(self, o):
        return QBool(z3.And(self.e, o.e if isinstance(o, QBool) else z3.BoolVal(bool(o))))

    def __or__(self, o):
        return QBool(z3.Or(self.e, o.e if isinstance(o, QBool) else z3.BoolVal(bool(o))))

    def __invert__(self):
        return QBool(z3.Not(self.e))


def _t(x):
    if isinstance(x, Q):
        return x.t
    if isinstance(x, bool):
        raise Unsupported("bool in arithmetic")
    if isinstance(x, (int, np.integer)):
        return z3.RealVal(int(x))
    if isinstance(x, Fraction):
        return z3.RealVal(str(x))
    if isinstance(x, (float, np.floating)):
        f = Fraction(float(x))
        return z3.RealVal(f"{f.numerator}/{f.denominator}")
    raise Unsupported(f"operand {type(x).__name__}")


class Q:
    __slots__ = ("t",)
    __array_priority__ = 1000

    def __init__(self, t):
        self.t = t

    # arithmetic
    def __add__(self, o):
        return Q(self.t + _t(o))

    def __radd__(self, o):
        return Q(_t(o) + self.t)

    def __sub__(self, o):
        return Q(self.t - _t(o))

    def __rsub__(self, o):
        return Q(_t(o) - self.t)

    def __mul__(self, o):
        return Q(self.t * _t(o))

    def __rmul__(self, o):
        return Q(_t(o) * self.t)

    def __truediv__(self, o):
        return Q(self.t / _t(o))

    def __rtruediv__(self, o):
        return Q(_t(o) / self.t)

    def __neg__(self):
        return Q(-self.t)

    def __pos__(self):
        return self

    def __pow__(self, o):
        if isinstance(o, (int, np.integer)) and not isinstance(o, bool) and 0 <= int(o) <= 4:
            r = z3.RealVal(1)
            for _ in range(int(o)):
                r = r * self.t
            return Q(r)
        if isinstance(o, (float, np.floating)) and float(o) == 0.5:
            return Q(SQRT(self.t))
        if isinstance(o, (float, np.floating)) and float(o).is_integer() and 0 <= float(o) <= 4:
            return self.__pow__(int(o))
        return Q(POW(self.t, _t(o)))

    def __rpow__(self, o):
        return Q(POW(_t(o), self.t))

    def sqrt(self):
        return Q(SQRT(self.t))

    def conjugate(self):
        return self

    @property
    def real(self):
        return self

    @property
    def imag(self):
        return Q(z3.RealVal(0))

    # comparisons
    def __lt__(self, o):
        return QBool(self.t < _t(o))

    def __le__(self, o):
        return QBool(self.t <= _t(o))

    def __gt__(self, o):
        return QBool(self.t > _t(o))

    def __ge__(self, o):
        return QBool(self.t >= _t(o))

    def __eq__(self, o):
        try:
            return QBool(self.t == _t(o))
        except Unsupported:
            return NotImplemented

    def __ne__(self, o):
        try:
            return QBool(self.t != _t(o))
        except Unsupported:
            return NotImplemented

    __hash__ = None  # type: ignore

    def __float__(self):
        raise Unsupported("a symbolic real was forced to a float")

    def __repr__(self):
        return f"Q({self.t})"


def fresh_array(name: str, shape) -> np.ndarray:
    a = np.empty(shape, dtype=object)
    for idx in np.ndindex(*shape):
        a[idx] = Q(z3.Real(f"{name}[{','.join(map(str, idx))}]"))
    return a


def terms(a):
    """Flatten a result (numpy object array, xarray object, scalar Q or number) into (shape, list of z3 terms)."""
    if hasattr(a, "data") and hasattr(a, "dims"):  # xarray.DataArray
        a = a.data
    arr = np.asarray(a, dtype=object)
    return tuple(arr.shape), [_t(x) for x in arr.flatten()]


def differ_model(cond, got_terms, want_terms):
    """None if equal for all reals (under cond); else ('sat', model) or ('unknown', None)."""
    s = z3.Solver()
    s.set("timeout", TIMEOUT_MS)
    for c in cond:
        s.add(c)
    s.add(z3.Or(*[g != w for g, w in zip(got_terms, want_terms)]) if got_terms else z3.BoolVal(False))
    t0 = time.perf_counter()
    r = s.check()
    STATS["seconds"] += time.perf_counter() - t0
    STATS["queries"] += 1
    if r == z3.unsat:
        return None
    if r == z3.sat:
        return ("sat", s.model())
    STATS["unknown"] += 1
    return ("unknown", None)


def model_to_fractions(model, names_shapes) -> dict:
    """Concrete rational inputs from a model: {name: nested list of Fraction}."""
    out = {}
    for name, shape in names_shapes.items():
        a = np.empty(shape, dtype=object)
        for idx in np.ndindex(*shape):
            v = model.eval(z3.Real(f"{name}[{','.join(map(str, idx))}]"), model_completion=True)
            try:
                a[idx] = Fraction(v.numerator_as_long(), v.denominator_as_long())
            except Exception:
                a[idx] = Fraction(0)  # algebraic value: not replayable exactly
        out[name] = a
    return out
