"""C19 -- cascade.low.builders: accepted jobs are well formed and carry the bound values; builders are persistent."""

from __future__ import annotations

import inspect

from vf import repo_env
from vf.engine_xh import Violation
from vf.runner import Harness, register

repo_env.setup()
import cascade.low.builders as builders  # noqa: E402
from cascade.low.builders import JobBuilder, TaskBuilder  # noqa: E402
from cascade.low.func import Either  # noqa: E402
from vf.palette_callables import CALLABLES  # noqa: E402

import collections  # noqa: E402
import dataclasses  # noqa: E402


@dataclasses.dataclass
class Cfg:
    level: int
    name: str


Pt = collections.namedtuple("Pt", ["x", "y"])
# quick shards use the first two or three; the structured values (a dataclass instance, a named tuple, an ordered dict) are bound in the
# dedicated `structured` shards: the job must carry the very objects, not flattened copies
VALUES = [1, "v", True, None, 2.5]
STRUCTURED = [Cfg(3, "c"), Pt(1, 2), collections.OrderedDict(b=1, a=2)]
TYPES = {"int": int, "str": str, "bool": bool}


def ann(t):
    if t is inspect.Parameter.empty or t is inspect.Signature.empty:
        return "Any"
    return t if isinstance(t, str) else t.__name__


def type_ok(v, t):
    return t == "Any" or isinstance(v, TYPES[t])


def compatible(t_out, t_in):
    if t_in == "Any" or t_out == "Any" or t_out == t_in:
        return True
    return issubclass(TYPES[t_out], TYPES[t_in])


class Builder(Harness):
    name = "job-builder"
    engine = "E1-crosshair"
    properties = ("C19",)
    rule = "one path = (callable per task, bound positional/keyword values, edges with existing or dangling endpoints); non-trivial = >=1 edge or >=1 bound value"
    assumptions = ["keyword values are bound only to parameters the callable has (binding to an unknown name is not part of the statement)",
                   "an absent annotation ('Any') is compatible with every declared type, in both directions"]
    outside = ["the domain-specific type names in `skipped`", "entrypoint-based tasks"]

    def shards(self, tier):
        n = len(CALLABLES)
        out = []
        for a in range(n):
            for b in range(n):
                if tier == "quick":
                    out.append({"tasks": [a, b], "edges": 1, "maxpos": 0, "nokw": True})
                    if a == b:
                        out.append({"tasks": [a, b], "edges": 0, "maxpos": 2, "nvalues": 2, "nokw": True, "rebind": True})
                        out.append({"tasks": [a, b], "edges": 0, "maxpos": 1, "structured": True})
                    if a <= b:
                        base = {"tasks": [a, b], "edges": 0, "maxpos": 2 if a == b else 1, "nvalues": 3}
                        if a == b:
                            from vf.engine_xh import split_prefixes

                            out += [{**base, "_prefix": p} for p in split_prefixes(self.body, base, 24)]
                        else:
                            out.append(base)
                else:
                    out.append({"tasks": [a, b], "edges": 2})
                    for c in (1, 2, 6):
                        out.append({"tasks": [a, b, c], "edges": 2})
        return out

    def budget(self, tier):
        return 60.0 if tier == "quick" else 600.0

    def bounds(self, tier):
        return {"tasks": 2 if tier == "quick" else "2..3", "edges": 1 if tier == "quick" else 2, "callable_palette": [f.__name__ for f in CALLABLES], "value_palette": [repr(v) for v in (VALUES[:3] if tier == "quick" else VALUES)], "positional_values_per_task": "0..2", "quick_split": "edges explored without bound values, bound values explored without edges (thorough: the product)"}

    def functions(self):
        return [TaskBuilder.from_callable, TaskBuilder.with_values, JobBuilder.with_node, JobBuilder.with_edge, JobBuilder.build, Either]

    def body(self, ch, params):
        with ch.untraced():
            fs = [CALLABLES[i] for i in params["tasks"]]
            names = [f"t{i}" for i in range(len(fs))]
            tasks, bound_ps, bound_kw, expect_err = [], [], [], False
            for i, f in enumerate(fs):
                sig = inspect.signature(f)
                try:
                    tb = TaskBuilder.from_callable(f)
                except Exception as e:
                    raise Violation(f"from_callable-raised-{type(e).__name__}", f"{f.__name__}: {e}")
                kwparams = [p for p in sig.parameters.values() if p.kind in (p.KEYWORD_ONLY, p.POSITIONAL_OR_KEYWORD)]
                ps, kw = [], {}
                vals = STRUCTURED if params.get("structured") else VALUES[: params.get("nvalues", len(VALUES))]
                npos = ch.pick(params.get("maxpos", 2) + 1, f"npos{i}")
                for k in range(npos):
                    ps.append(ch.choose(vals, f"ps{i}_{k}"))
                if kwparams and not params.get("nokw") and ch.flag(f"bindkw{i}"):
                    p = ch.choose(kwparams, f"kwname{i}")
                    kw[p.name] = ch.choose(vals, f"kwval{i}")
                if ps or kw:
                    try:
                        tb2 = tb.with_values(*ps, **kw)
                    except Exception as e:
                        raise Violation(f"with_values-raised-{type(e).__name__}", f"{f.__name__}.with_values(*{ps!r}, **{kw!r}): {e}")
                    # persistence: the builder it was derived from is unchanged
                    if tb.static_input_ps != {} or any(k in kw and tb.static_input_kw.get(k, inspect.Parameter.empty) is not kwparams_default(kwparams, k) for k in kw):
                        raise Violation("with_values-mutated-original", f.__name__)
                    tb = tb2
                    if ps and params.get("rebind") and i == 0 and ch.flag(f"rebind{i}"):
                        # a pre-filled template specialised again: the new value is bound to the position given now (position 0)
                        v2 = ch.choose(vals, f"ps{i}_again")
                        try:
                            tb = tb.with_values(v2)
                        except Exception as e:
                            raise Violation(f"with_values-raised-{type(e).__name__}", f"{f.__name__}: second with_values({v2!r}): {e}")
                        if tb2.static_input_ps.get("0", tb2.static_input_ps.get(0)) is not ps[0] and tb2.static_input_ps.get("0", tb2.static_input_ps.get(0)) != ps[0]:
                            raise Violation("with_values-mutated-original", f"{f.__name__}: rebinding changed the builder it was derived from")
                        ps = [v2] + ps[1:]
                tasks.append(tb)
                bound_ps.append(ps)
                bound_kw.append(kw)
                # static kw values (defaults + bound) must match the declared type
                eff = {p.name: p.default for p in kwparams if p.default is not inspect.Parameter.empty}
                eff.update(kw)
                for k, v in eff.items():
                    if not type_ok(v, ann(sig.parameters[k].annotation)):
                        expect_err = True
            jb = JobBuilder()
            for nm, tb in zip(names, tasks):
                jb = jb.with_node(nm, tb)
            jb_nodes_only = jb
            try:
                first = jb_nodes_only.build()
            except Exception as e:
                raise Violation(f"build-raised-{type(e).__name__}", str(e)[:200])
            snapshot = first.t.model_dump() if first.t is not None else None
            edges = []
            for e in range(params["edges"]):
                if e > 0 and not ch.flag(f"edge{e}"):
                    continue
                src = ch.choose(names + ["ghost"], f"src{e}")
                out = ch.choose(["0", "nope"], f"out{e}")
                snk = ch.choose(names + ["ghost"], f"snk{e}")
                kind = ch.pick(3, f"kind{e}")  # 0 positional, 1 existing kw param (if any), 2 unknown kw param
                into = None
                if kind == 0:
                    into = ch.pick(2, f"pos{e}")
                elif kind == 1 and snk in names:
                    sig = inspect.signature(fs[names.index(snk)])
                    kwp = [p for p in sig.parameters.values() if p.kind in (p.KEYWORD_ONLY, p.POSITIONAL_OR_KEYWORD)]
                    if not kwp:
                        into = "nokw"
                    else:
                        into = ch.choose(kwp, f"into{e}").name
                else:
                    into = ch.choose(["nokw", ""], f"unknown{e}")
                edges.append((src, out, snk, into))
                jb = jb.with_edge(src, snk, into, out)
                ok_src = src in names and out == "0"
                ok_snk = snk in names
                ok = ok_src and ok_snk
                if ok and isinstance(into, str):
                    sig = inspect.signature(fs[names.index(snk)])
                    if into not in sig.parameters or sig.parameters[into].kind not in (inspect.Parameter.KEYWORD_ONLY, inspect.Parameter.POSITIONAL_OR_KEYWORD):
                        ok = False
                    else:
                        t_out = ann(inspect.signature(fs[names.index(src)]).return_annotation)
                        t_in = ann(sig.parameters[into].annotation)
                        ok = compatible(t_out, t_in)
                if not ok:
                    expect_err = True
            ch.note("case", {"tasks": [f.__name__ for f in fs], "ps": [repr(p) for p in bound_ps], "kw": [repr(k) for k in bound_kw], "edges": edges})
            ch.note("nontrivial", bool(edges) or any(bound_ps) or any(bound_kw))
            try:
                res = jb.build()
            except Exception as e:
                raise Violation(f"build-raised-{type(e).__name__}", f"{str(e)[:160]} for edges {edges}")
            if expect_err:
                if not res.e or res.t is not None:
                    raise Violation("ill-formed-description-accepted", f"edges {edges} ps {bound_ps} kw {bound_kw}")
                if not isinstance(res.e, list) or not all(isinstance(x, str) and x for x in res.e):
                    raise Violation("problems-not-listed", repr(res.e))
            else:
                if res.e or res.t is None:
                    raise Violation("well-formed-description-rejected", f"{res.e} for edges {edges} ps {bound_ps} kw {bound_kw}")
                job = res.t
                if sorted(job.tasks) != sorted(names):
                    raise Violation("tasks-differ")
                got_edges = [(e.source.task, e.source.output, e.sink_task, e.sink_input_kw if e.sink_input_kw is not None else e.sink_input_ps) for e in job.edges]
                if got_edges != edges:
                    raise Violation("edges-differ", f"{got_edges} vs {edges}")
                for e in job.edges:
                    if e.source.task not in job.tasks or e.source.output not in job.tasks[e.source.task].definition.output_schema or e.sink_task not in job.tasks:
                        raise Violation("accepted-job-has-dangling-edge", repr(e))
                for i, nm in enumerate(names):
                    t = job.tasks[nm]
                    want_ps = {str(k): v for k, v in enumerate(bound_ps[i])}
                    if dict(t.static_input_ps) != want_ps or any(type(t.static_input_ps[k]) is not type(v) for k, v in want_ps.items() if k in t.static_input_ps):
                        raise Violation("positional-values-misplaced", f"{nm}: {dict(t.static_input_ps)} vs {want_ps}")
                    for k, v in bound_kw[i].items():
                        if k not in t.static_input_kw or (t.static_input_kw[k] is not v and t.static_input_kw[k] != v) or type(t.static_input_kw[k]) is not type(v):
                            raise Violation("keyword-value-lost", f"{nm}.{k}")
            # persistence: what was built before is untouched, and the old builder still builds the same job
            if snapshot is not None:
                if first.t.model_dump() != snapshot:
                    raise Violation("earlier-job-mutated")
                again = jb_nodes_only.build()
                if again.t is None or again.t.model_dump() != snapshot:
                    raise Violation("earlier-builder-changed")


def kwparams_default(kwparams, k):
    for p in kwparams:
        if p.name == k:
            return p.default
    return inspect.Parameter.empty


register(Builder())
