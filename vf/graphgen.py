"""Pick-driven generator of earthkit.workflows.graph graphs + the denotation used as an oracle."""

from __future__ import annotations

from earthkit.workflows.graph import Graph, Node

OUT_KINDS = ["default", "ab", "none"]


def gen_spec(ch, n, payloads, outs_palette=None, allow_noout=True, max_inputs=2, input_names=("x", "y")):
    """Plain description: list of nodes in topological order.
    node = {"outputs": None|[...], "payload": p, "inputs": [(iname, parent index, output name)]}"""
    outs_palette = outs_palette or {"default": None, "ba": ["b", "a"], "none": [], "solo": ["only"]}  # declared order deliberately not sorted; one named output
    kinds = [k for k in outs_palette if allow_noout or outs_palette[k] != []]
    spec = []
    for j in range(n):
        # inputs from earlier nodes that have outputs
        cands = [(i, o) for i in range(j) for o in (spec[i]["outputs"] if spec[i]["outputs"] is not None else [Node.DEFAULT_OUTPUT])]
        inputs = []
        if cands:
            k = ch.pick(min(max_inputs, len(cands)) + 1, f"nin{j}")
            for m in range(k):
                i, o = ch.choose(cands, f"in{j}_{m}")
                inputs.append((input_names[m], i, o))
            if k == 2 and ch.flag(f"swap{j}"):
                inputs.reverse()  # the same inputs declared in the other order
        kind = ch.choose(kinds, f"outs{j}")
        payload = ch.choose(payloads, f"payload{j}")
        spec.append({"outputs": outs_palette[kind], "payload": payload, "inputs": inputs})
    return spec


def terminals(spec):
    used = {i for nd in spec for (_, i, _) in nd["inputs"]}
    return [j for j in range(len(spec)) if j not in used]


def build(spec, names, node_cls=Node):
    nodes = []
    for j, nd in enumerate(spec):
        ins = {iname: nodes[i].get_output(o) for (iname, i, o) in nd["inputs"]}
        outs = None if nd["outputs"] is None else list(nd["outputs"])
        nodes.append(node_cls(names[j], outputs=outs, payload=nd["payload"], **ins))
    return Graph([nodes[j] for j in terminals(spec)]), nodes


def denote_node(node, memo=None):
    """(payload, outputs, {iname: (denotation of parent, output name)}) -- names do not occur."""
    memo = {} if memo is None else memo
    if id(node) in memo:
        return memo[id(node)]
    d = (repr(node.payload), tuple(node.outputs), tuple(sorted((iname, denote_node(src.parent, memo), src.name) for iname, src in node.inputs.items())))
    memo[id(node)] = d
    return d


def structure(graph):
    """Name-level structure: {name: (outputs, payload repr, {iname: (parent name, output)})}"""
    out = {}
    for n in graph.nodes():
        if n.name in out:
            raise AssertionError(f"duplicate node name {n.name!r}")
        out[n.name] = (tuple(n.outputs), repr(n.payload), tuple(sorted((iname, src.parent.name, src.name) for iname, src in n.inputs.items())))
    return out


def spec_structure(spec, names):
    out = {}
    for j, nd in enumerate(spec):
        outs = (Node.DEFAULT_OUTPUT,) if nd["outputs"] is None else tuple(nd["outputs"])
        out[names[j]] = (outs, repr(nd["payload"]), tuple(sorted((iname, names[i], o) for (iname, i, o) in nd["inputs"])))
    return out
