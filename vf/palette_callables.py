"""Callables with assorted signatures for the job-builder harness (no `from __future__ import annotations` here:
annotations must be real types, as users write them)."""


def f_none():
    return 0


def f_plain(a, b):
    return (a, b)


def f_typed(a: int, b: str = "x") -> int:
    return a


def f_kwonly(*, k: int) -> str:
    return str(k)


def f_var(a, *args):
    return a


def f_bool(a: bool = True) -> bool:
    return a


def f_str(s: str) -> str:
    return s


CALLABLES = [f_none, f_plain, f_typed, f_kwonly, f_var, f_bool, f_str]
