"""C13 -- fluent programs evaluated on symbolic reals (engine E3) against the operation applied directly to the stacked
source arrays; dims/coords of the resulting node array against the documented ones."""

from __future__ import annotations

import itertools
import multiprocessing as mp
import time

import numpy as np
import z3

from vf import repo_env
from vf.runner import Harness, HarnessResult, register

repo_env.setup()
import xarray as xr  # noqa: E402
import earthkit.workflows.fluent as fluent  # noqa: E402
from earthkit.workflows import backends  # noqa: E402
from earthkit.workflows.graph import Graph, Node, Output  # noqa: E402
from vf import engine_symreal as E  # noqa: E402
from vf.engine_symreal import Q  # noqa: E402
from vf.h_backends import ref_reduce  # noqa: E402

INNER = (2,)


def evaluate(graph: Graph) -> dict:
    """Reference interpreter: topological evaluation that just calls each node's payload.
    Values are keyed by node identity, not by name (whether names identify computations is C14's business)."""
    val: dict = {}
    for node in graph.nodes(forwards=True):
        func, args, kwargs = node.payload
        ins = {iname: val[(id(src.parent), src.name)] for iname, src in node.inputs.items()}
        cargs = [ins[a] if isinstance(a, str) and a in ins else a for a in args]
        res = func(*cargs, **kwargs)
        if len(node.outputs) == 1:
            val[(id(node), node.outputs[0])] = res
        else:
            res = list(res)
            if len(res) != len(node.outputs):
                raise AssertionError("generator yielded a different number of values than declared")
            for o, r in zip(node.outputs, res):
                val[(id(node), o)] = r
    return val


def node_value(val, n):
    if isinstance(n, Output):
        return val[(id(n.parent), n.name)]
    return val[(id(n), Node.DEFAULT_OUTPUT)]


class Src:
    """A source node array with one fresh symbolic array per node."""

    def __init__(self, tag, shape, dims):
        self.shape, self.dims, self.tag = shape, dims, tag
        self.arr = {idx: E.fresh_array(f"{tag}{''.join(map(str, idx))}", INNER) for idx in np.ndindex(*shape)}
        pay = np.empty(shape, dtype=object)
        for idx in np.ndindex(*shape):
            pay[idx] = self._mk(idx)
        self.coords = {d: list(range(10 * (i + 1), 10 * (i + 1) + s)) for i, (d, s) in enumerate(zip(dims, shape))}
        self.action = fluent.from_source(pay, dims=list(dims), coords=self.coords)

    def _mk(self, idx):
        a = self.arr[idx]

        def source():
            return a

        source.__name__ = f"source_{self.tag}{''.join(map(str, idx))}"
        return source


def fmap(x):
    return x * 2 + 1


def lin(a):
    """flatten a result array (possibly nested object arrays) to a list of terms with its shape"""
    arr = np.asarray(a, dtype=object)
    return tuple(arr.shape), [E._t(x) for x in arr.flatten()]


def program_list(tier):
    shapes = [((2,), ("d0",)), ((3,), ("d0",)), ((2, 2), ("d0", "d1"))]
    if tier == "thorough":
        shapes += [((4,), ("d0",)), ((3, 2), ("d0", "d1")), ((2, 3), ("d0", "d1"))]
    progs = []
    # batching of a non-leading dimension with keep_dim (needs a reduced dimension of size >= 3)
    for op in ("sum", "mean", "max"):
        for keep in (False, True):
            progs.append(("reduce", (2, 3), ("d0", "d1"), op, "d1", 2, keep))
    progs.append(("concatenate-xr", (2,), ("d0",)))
    progs.append(("concatenate-xr", (3,), ("d0",)))
    progs.append(("expand-inner", (2,), ("d0",), (2, 1)))
    progs.append(("stack-twice", (2,), ("d0",)))
    # more than ten members along the combined dimension (their positions are named input0 .. input10)
    progs.append(("concatenate", (11,), ("d0",), "d0", 0, False))
    progs.append(("stack", (11,), ("d0",), "d0", 0, False))
    progs.append(("expand-two-axes", (2,), ("d0",), (2, 3)))
    progs.append(("expand-two-axes", (2,), ("d0",), (2, 2)))
    progs.append(("expand-inner", (2,), ("d0",), (3, 1)))
    for shape, dims in shapes:
        for di, d in enumerate(dims):
            n = shape[di]
            for op in ("sum", "prod", "min", "max", "mean", "std"):
                for bs in range(0, n + 2):
                    for keep in (False, True):
                        progs.append(("reduce", shape, dims, op, d, bs, keep))
            for op in ("stack", "concatenate"):
                # stack is documented as not batchable (reduce raises ValueError): only concatenate is batched
                for bs in ((0, 2) if n > 2 and op == "concatenate" else (0,)):
                    for keep in (False, True):
                        progs.append((op, shape, dims, d, bs, keep))
            progs.append(("flatten", shape, dims, d))
            for i in range(n):
                progs.append(("select", shape, dims, d, i))
                progs.append(("isel", shape, dims, d, i))
        progs.append(("map", shape, dims))
        progs.append(("expand", shape, dims))
        for op in ("add", "subtract", "multiply", "divide", "power"):
            progs.append(("scalar", shape, dims, op))
            progs.append(("binary", shape, dims, op))
        progs.append(("broadcast", shape, dims))
        progs.append(("broadcast-lead", shape, dims))
        if len(dims) == 2 and shape[0] == shape[1]:
            progs.append(("broadcast-perm", shape, dims))
        progs.append(("join", shape, dims, "coord"))
        progs.append(("join", shape, dims, "newdim"))
        progs.append(("join", shape, dims, "existing"))
        progs.append(("transform", shape, dims))
        # depth 2
        for op in ("sum", "mean", "max"):
            progs.append(("map-reduce", shape, dims, op, dims[0], 2 if shape[0] > 2 else 0))
            progs.append(("reduce-map", shape, dims, op, dims[-1]))
        progs.append(("binary-reduce", shape, dims, "subtract", "sum", dims[0]))
        if len(dims) == 2:
            progs.append(("reduce-reduce", shape, dims, "sum", "d0", "prod", "d1"))
            progs.append(("reduce-reduce", shape, dims, "mean", "d1", "max", "d0"))
    return progs


def run_program(prog):
    """Build with the real fluent code, evaluate on Q arrays, compare with the reference. Returns a result dict."""
    t0 = time.perf_counter()
    q0, s0 = E.STATS["queries"], E.STATS["seconds"]
    out = {"prog": list(map(lambda x: list(x) if isinstance(x, tuple) else x, prog)), "result": "holds", "paths": 0}
    try:
        def once():
            return build_and_eval(prog)

        for (got_dims, got_coords, want_dims, want_coords, pairs), cond in E.explore_all(once):
            out["paths"] += 1
            if tuple(got_dims) != tuple(want_dims):
                out.update(result="violated", key="dims-differ-from-documented", why=f"dims {got_dims} vs documented {want_dims}")
                break
            if got_coords != want_coords:
                out.update(result="violated", key="coords-differ-from-documented", why=f"coords {got_coords} vs documented {want_coords}")
                break
            bad = None
            for coord, got, want in pairs:
                gs, gt = lin(got)
                ws, wt = lin(want)
                if gs != ws:
                    bad = ("inner-shape-differs", f"at {coord}: inner shape {gs} vs {ws}")
                    break
                d = E.differ_model(cond, gt, wt)
                if d is None:
                    continue
                if d[0] == "unknown":
                    out["result"] = "unknown"
                    continue
                bad = ("value-differs-from-direct-computation", f"at {coord}: model {str(d[1])[:200]}")
                break
            if bad:
                out.update(result="violated", key=bad[0], why=bad[1])
                break
    except E.Unsupported as u:
        out.update(result="unsupported", why=str(u))
    except Violated as v:
        out.update(result="violated", key=v.key, why=v.msg)
    except Exception as e:
        import traceback

        out.update(result="error", why=f"{type(e).__name__}: {str(e)[:200]} @ {traceback.format_exc()[-400:]}")
    out["solver_queries"] = E.STATS["queries"] - q0
    out["solver_seconds"] = E.STATS["seconds"] - s0
    out["wall"] = time.perf_counter() - t0
    return out


class Violated(Exception):
    def __init__(self, key, msg):
        self.key, self.msg = key, msg


def apply_guarded(what, f):
    try:
        return f()
    except Exception as e:
        raise Violated(f"{what}-raised-{type(e).__name__}", str(e)[:200])


def stacked(src: Src):
    return src.arr


def reduce_ref(src_vals: dict, shape, dims, op, d, keep):
    """reference for reducing dimension d of a dict {idx: inner array}"""
    di = dims.index(d)
    rest = [i for i in range(len(dims)) if i != di]
    out = {}
    for ridx in np.ndindex(*[shape[i] for i in rest]):
        group = []
        for k in range(shape[di]):
            full = list(ridx)
            full.insert(di, k)
            group.append(src_vals[tuple(full)])
        out[ridx] = elementwise(op, group)
    return out, tuple(dims[i] for i in rest), tuple(shape[i] for i in rest)


def elementwise(op, arrays):
    arrays = [np.asarray(a, dtype=object) for a in arrays]
    shape = arrays[0].shape
    res = np.empty(shape, dtype=object)
    for idx in np.ndindex(*shape):
        res[idx] = ref_reduce(op, [a[idx] for a in arrays])
    return res


def build_and_eval(prog):
    kind, shape, dims = prog[0], prog[1], prog[2]
    A = Src("a", shape, dims)
    vals = dict(A.arr)
    coords = {d: list(A.coords[d]) for d in dims}
    want_extra_scalar = {}
    if kind == "reduce":
        _, _, _, op, d, bs, keep = prog
        act = apply_guarded(f"{op}(batch_size={bs},keep_dim={keep})", lambda: getattr(A.action, op)(dim=d, batch_size=bs, keep_dim=keep))
        want, wdims, wshape = reduce_ref(vals, shape, dims, op, d, keep)
        return finish(act, want, wdims, coords, keep_dim=(d, dims.index(d), f"{coords[d][0]}-{coords[d][-1]}") if keep else None)
    if kind in ("stack", "concatenate"):
        _, _, _, d, bs, keep = prog
        act = apply_guarded(f"{kind}(batch_size={bs},keep_dim={keep})", lambda: getattr(A.action, kind)(d, batch_size=bs, keep_dim=keep))
        di = dims.index(d)
        rest = [i for i in range(len(dims)) if i != di]
        want = {}
        for ridx in np.ndindex(*[shape[i] for i in rest]):
            group = []
            for k in range(shape[di]):
                full = list(ridx)
                full.insert(di, k)
                group.append(vals[tuple(full)])
            want[ridx] = np.stack(group, axis=0) if kind == "stack" else np.concatenate(group, axis=0)
        return finish(act, want, tuple(dims[i] for i in rest), coords, keep_dim=(d, di, f"{coords[d][0]}-{coords[d][-1]}") if keep else None)
    if kind == "flatten":
        d = prog[3]
        act = apply_guarded("flatten", lambda: A.action.flatten(dim=d))
        di = dims.index(d)
        rest = [i for i in range(len(dims)) if i != di]
        want = {}
        for ridx in np.ndindex(*[shape[i] for i in rest]):
            group = []
            for k in range(shape[di]):
                full = list(ridx)
                full.insert(di, k)
                group.append(vals[tuple(full)])
            want[ridx] = np.stack(group, axis=0)
        return finish(act, want, tuple(dims[i] for i in rest), coords)
    if kind in ("select", "isel"):
        d, i = prog[3], prog[4]
        if kind == "select":
            act = apply_guarded("select", lambda: A.action.select({d: coords[d][i]}))
        else:
            act = apply_guarded("isel", lambda: A.action.isel({d: i}))
        di = dims.index(d)
        rest = [k for k in range(len(dims)) if k != di]
        want = {}
        for ridx in np.ndindex(*[shape[k] for k in rest]):
            full = list(ridx)
            full.insert(di, i)
            want[ridx] = vals[tuple(full)]
        return finish(act, want, tuple(dims[k] for k in rest), coords, scalar_coords={d: coords[d][i]})
    if kind == "map":
        act = apply_guarded("map", lambda: A.action.map(fmap))
        return finish(act, {idx: fmap(v) for idx, v in vals.items()}, dims, coords)
    if kind == "concatenate-xr":
        # labelled inner arrays (xarray), every node with the same decreasing labels: concatenation keeps node order
        import xarray as xr

        raw = {idx: E.fresh_array(f"x{''.join(map(str, idx))}", (2,)) for idx in np.ndindex(*shape)}
        A.arr = {idx: xr.DataArray(v, dims=("i",), coords={"i": [1, 0]}) for idx, v in raw.items()}
        pay = np.empty(shape, dtype=object)
        for idx in np.ndindex(*shape):
            pay[idx] = A._mk(idx)
        A.action = fluent.from_source(pay, dims=list(dims), coords=A.coords)
        act = apply_guarded("concatenate", lambda: A.action.concatenate(dims[0], backend_kwargs={"dim": "i"}))
        want = {(): np.concatenate([raw[(k,)] for k in range(shape[0])], axis=0)}
        return finish(act, want, (), coords)
    if kind == "stack-twice":
        # two results built from the same sources before either is evaluated: stacked along axis 1, and along the default axis
        first = apply_guarded("stack", lambda: A.action.stack(dims[0], axis=1))
        second = apply_guarded("stack", lambda: A.action.stack(dims[0]))
        group = [vals[(k,)] for k in range(shape[0])]
        r0 = finish(first, {(): np.stack(group, axis=1)}, (), coords)
        r1 = finish(second, {(): np.stack(group, axis=0)}, (), coords)
        if r0[0] != r0[2] or r0[1] != r0[3]:
            raise Violated("dims-differ-from-documented", f"{r0[0]} {r0[1]} vs {r0[2]} {r0[3]}")
        return r1[0], r1[1], r1[2], r1[3], r0[4] + r1[4]
    if kind == "expand-two-axes":
        # the same action expanded along its first internal axis, then (in the same process) along its last one, counted from the end
        inner = prog[3]
        A.arr = {idx: E.fresh_array(f"j{''.join(map(str, idx))}", inner) for idx in np.ndindex(*shape)}
        pay = np.empty(shape, dtype=object)
        for idx in np.ndindex(*shape):
            pay[idx] = A._mk(idx)
        A.action = fluent.from_source(pay, dims=list(dims), coords=A.coords)
        vals = dict(A.arr)
        first = apply_guarded("expand", lambda: A.action.expand("e", internal_dim=0, dim_size=inner[0]))
        want0 = {(e,) + idx: v[e] for idx, v in vals.items() for e in range(inner[0])}
        c0 = dict(coords)
        c0["e"] = list(range(inner[0]))
        r0 = finish(first, want0, ("e",) + tuple(dims), c0)
        if r0[0] != r0[2] or r0[1] != r0[3]:
            raise Violated("dims-differ-from-documented", f"{r0[0]} {r0[1]} vs {r0[2]} {r0[3]}")
        second = apply_guarded("expand", lambda: A.action.expand("e", internal_dim=-1, dim_size=inner[-1]))
        want1 = {(e,) + idx: v[..., e] for idx, v in vals.items() for e in range(inner[-1])}
        c1 = dict(coords)
        c1["e"] = list(range(inner[-1]))
        r1 = finish(second, want1, ("e",) + tuple(dims), c1)
        return r1[0], r1[1], r1[2], r1[3], r0[4] + r1[4]
    if kind == "expand-inner":
        # inner arrays with an extra axis of length 1: only the expanded axis may be dropped
        inner = prog[3]
        A.arr = {idx: E.fresh_array(f"i{''.join(map(str, idx))}", inner) for idx in np.ndindex(*shape)}
        pay = np.empty(shape, dtype=object)
        for idx in np.ndindex(*shape):
            pay[idx] = A._mk(idx)
        A.action = fluent.from_source(pay, dims=list(dims), coords=A.coords)
        vals = dict(A.arr)
        act = apply_guarded("expand", lambda: A.action.expand("e", internal_dim=0, dim_size=inner[0]))
        want = {}
        for idx, v in vals.items():
            for e in range(inner[0]):
                want[(e,) + idx] = v[e]
        c2 = dict(coords)
        c2["e"] = list(range(inner[0]))
        return finish(act, want, ("e",) + tuple(dims), c2)
    if kind == "expand":
        act = apply_guarded("expand", lambda: A.action.expand("e", internal_dim=0, dim_size=INNER[0]))
        want = {}
        for idx, v in vals.items():
            for e in range(INNER[0]):
                want[(e,) + idx] = v[e]
        c2 = dict(coords)
        c2["e"] = list(range(INNER[0]))
        return finish(act, want, ("e",) + tuple(dims), c2)
    py = {"add": lambda x, y: x + y, "subtract": lambda x, y: x - y, "multiply": lambda x, y: x * y, "divide": lambda x, y: x / y, "power": lambda x, y: x ** y}
    if kind == "scalar":
        op = prog[3]
        c = 2 if op == "power" else 3
        act = apply_guarded(op, lambda: getattr(A.action, op)(c))
        return finish(act, {idx: py[op](v, c) for idx, v in vals.items()}, dims, coords)
    if kind == "binary":
        op = prog[3]
        B = Src("b", shape, dims)
        act = apply_guarded(op, lambda: getattr(A.action, op)(B.action))
        return finish(act, {idx: py[op](v, B.arr[idx]) for idx, v in vals.items()}, dims, coords)
    if kind == "broadcast":
        B = Src("b", shape + (2,), tuple(dims) + ("bx",))
        act = apply_guarded("broadcast", lambda: A.action.broadcast(B.action))
        want = {idx + (k,): v for idx, v in vals.items() for k in range(2)}
        c2 = dict(coords)
        c2["bx"] = list(B.coords["bx"])
        return finish(act, want, tuple(dims) + ("bx",), c2)
    if kind == "broadcast-lead":
        # the target's additional dimension comes first (and is longer than the source's own dimensions)
        B = Src("b", (shape[0] + 1,) + shape, ("bx",) + tuple(dims))
        B.action.nodes = B.action.nodes.assign_coords({d: coords[d] for d in dims})
        act = apply_guarded("broadcast", lambda: A.action.broadcast(B.action))
        rdims = [str(d) for d in act.nodes.dims]
        if sorted(rdims) != sorted(list(dims) + ["bx"]):
            raise Violated("dims-differ-from-documented", f"{rdims}")
        c2 = dict(coords)
        c2["bx"] = list(B.coords["bx"])
        want = {}
        for idx in np.ndindex(*[len(c2[d]) for d in rdims]):
            byname = dict(zip(rdims, idx))
            want[idx] = vals[tuple(byname[d] for d in dims)]
        return finish(act, want, tuple(rdims), c2)
    if kind == "broadcast-perm":
        # the target stores the shared dimensions in another order than the source
        B = Src("b", (shape[1], shape[0], 2), (dims[1], dims[0], "bx"))
        B.action.nodes = B.action.nodes.assign_coords({dims[0]: coords[dims[0]], dims[1]: coords[dims[1]]})
        act = apply_guarded("broadcast", lambda: A.action.broadcast(B.action))
        rdims = [str(d) for d in act.nodes.dims]
        if sorted(rdims) != sorted(list(dims) + ["bx"]):
            raise Violated("dims-differ-from-documented", f"{rdims}")
        c2 = dict(coords)
        c2["bx"] = list(B.coords["bx"])
        want = {}
        for idx in np.ndindex(*[len(c2[d]) for d in rdims]):
            byname = dict(zip(rdims, idx))
            want[idx] = vals[(byname[dims[0]], byname[dims[1]])]
        return finish(act, want, tuple(rdims), c2)
    if kind == "join":
        variant = prog[3]
        B = Src("b", shape, dims)
        if variant == "existing":
            d = dims[0]
            B.action.nodes = B.action.nodes.assign_coords({d: [c + 100 for c in coords[d]]})
            act = apply_guarded("join", lambda: A.action.join(B.action, d))
            want = dict(vals)
            want.update({(idx[0] + shape[0],) + idx[1:]: v for idx, v in B.arr.items()})
            c2 = dict(coords)
            c2[d] = list(coords[d]) + [c + 100 for c in coords[d]]
            return finish(act, want, tuple(dims), c2)
        if variant == "coord":
            act = apply_guarded("join", lambda: A.action.join(B.action, ("j", [0, 1])))
        else:
            act = apply_guarded("join", lambda: A.action.join(B.action, "j"))
        want = {(0,) + idx: v for idx, v in vals.items()}
        want.update({(1,) + idx: v for idx, v in B.arr.items()})
        c2 = dict(coords)
        c2["j"] = [0, 1] if variant == "coord" else None
        return finish(act, want, ("j",) + tuple(dims), c2)
    if kind == "transform":
        act = apply_guarded("transform", lambda: A.action.transform(lambda a, c: a.multiply(c), [(2,), (5,)], ("t", ["two", "five"])))
        want = {(0,) + idx: v * 2 for idx, v in vals.items()}
        want.update({(1,) + idx: v * 5 for idx, v in vals.items()})
        c2 = dict(coords)
        c2["t"] = ["two", "five"]
        return finish(act, want, ("t",) + tuple(dims), c2)
    if kind == "map-reduce":
        _, _, _, op, d, bs = prog
        act = apply_guarded("map-reduce", lambda: getattr(A.action.map(fmap), op)(dim=d, batch_size=bs))
        want, wdims, _ = reduce_ref({i: fmap(v) for i, v in vals.items()}, shape, dims, op, d, False)
        return finish(act, want, wdims, coords)
    if kind == "reduce-map":
        _, _, _, op, d = prog
        act = apply_guarded("reduce-map", lambda: getattr(A.action, op)(dim=d).map(fmap))
        want, wdims, _ = reduce_ref(vals, shape, dims, op, d, False)
        return finish(act, {i: fmap(v) for i, v in want.items()}, wdims, coords)
    if kind == "binary-reduce":
        _, _, _, bop, rop, d = prog
        B = Src("b", shape, dims)
        act = apply_guarded("binary-reduce", lambda: getattr(getattr(A.action, bop)(B.action), rop)(dim=d))
        want, wdims, _ = reduce_ref({i: py[bop](v, B.arr[i]) for i, v in vals.items()}, shape, dims, rop, d, False)
        return finish(act, want, wdims, coords)
    if kind == "reduce-reduce":
        _, _, _, op1, d1, op2, d2 = prog
        act = apply_guarded("reduce-reduce", lambda: getattr(getattr(A.action, op1)(dim=d1), op2)(dim=d2))
        w1, dims1, shape1 = reduce_ref(vals, shape, dims, op1, d1, False)
        want, wdims, _ = reduce_ref(w1, shape1, dims1, op2, d2, False)
        return finish(act, want, wdims, coords)
    raise KeyError(kind)


def finish(act, want: dict, want_dims, coords, keep_dim=None, scalar_coords=None):
    want_dims = list(want_dims)
    want_coords = {d: (list(coords[d]) if coords.get(d) is not None else None) for d in want_dims}
    nodes = act.nodes
    got_dims = [str(d) for d in nodes.dims]
    got_coords = {str(d): [x.item() if hasattr(x, "item") else x for x in nodes.coords[d].data] for d in nodes.dims if d in nodes.coords}
    if keep_dim is not None:
        d, axis, label = keep_dim
        want_dims.insert(axis, d)
        # the docstring fixes the position and (implicitly) size 1 of the kept dimension, not its coordinate label
        want_coords[d] = got_coords.get(d, [None]) if len(got_coords.get(d, [None])) == 1 else ["<one value>"]
        want = {idx[:axis] + (0,) + idx[axis:]: v for idx, v in want.items()}
    for d in list(want_coords):
        if want_coords[d] is None:  # a dimension without coordinate values
            want_coords.pop(d)
            got_coords.pop(d, None)
    g = act.graph()
    val = evaluate(g)
    pairs = []
    want_shape = tuple(1 + max(idx[i] for idx in want) for i in range(len(want_dims))) if want and want_dims else ()
    if tuple(got_dims) == tuple(want_dims) and tuple(nodes.shape) == want_shape:
        for idx in np.ndindex(*nodes.shape):
            n = nodes.data[idx]
            pairs.append((idx, node_value(val, n), want[idx]))
    elif tuple(got_dims) == tuple(want_dims):
        raise Violated("node-array-shape-differs", f"{nodes.shape} vs {want_shape}")
    return got_dims, got_coords, want_dims, want_coords, pairs


class Fluent(Harness):
    name = "fluent-symreal"
    engine = "E3-symreal"
    properties = ("C13",)
    rule = "one obligation = one fluent program (operation, node-array shape, reduced dimension, batch size, keep_dim) decided for all real element values; non-trivial = the program has >=2 source nodes"
    assumptions = ["exact real arithmetic; sqrt / non-integer power are uninterpreted functions", "the graph is evaluated by a reference interpreter that calls each node's payload in topological order",
                   "every source returns a (2,) array of fresh reals"]
    outside = ["floating-point rounding", "reduced dimensions of size 1", "programs deeper than 2 operations", "dask/earthkit backends", "xarray inner arrays (covered per operation by C15)"]

    def functions(self):
        return [fluent.Action, fluent.Node, fluent.Payload, fluent.from_source, fluent._batch_transform, fluent._expand_transform, fluent._combine_nodes, backends.Backend]

    def custom_run(self, tier, seed, jobs) -> HarnessResult:
        t0 = time.perf_counter()
        hr = HarnessResult(name=self.name, engine=self.engine)
        hr.rule, hr.assumptions, hr.outside = self.rule, list(self.assumptions), list(self.outside)
        hr.functions = repo_env.describe(self.functions())
        progs = program_list(tier)
        hr.bounds = {"node_array_shapes": sorted({str(p[1]) for p in progs}), "inner_array_shape": str(INNER), "batch_sizes": "0..n+1", "depth": "1 and selected depth-2 compositions", "programs": len(progs)}
        ctx = mp.get_context("fork")
        with ctx.Pool(min(jobs, 16)) as pool:
            results = pool.map(run_program, progs, chunksize=2)
        hr.evaluations = len(results)
        for r in results:
            hr.solver_queries += r["solver_queries"]
            hr.solver_seconds += r["solver_seconds"]
            if r["result"] == "holds":
                hr.nontrivial += 1
            elif r["result"] in ("unknown", "unsupported"):
                hr.inconclusive.append({"prog": r["prog"], "reason": r["result"], "why": r.get("why", "")})
            elif r["result"] == "error":
                hr.crashes.append({"fatal": f"{r['prog']}: {r['why']}"})
            else:
                p = r["prog"]
                detail = "-".join(str(x) for x in ([p[0]] + [x for x in p[3:] if isinstance(x, (str, bool))]))
                hr.failures.append({"key": f"{r['key']}:{detail}", "msg": f"{p}: {r['why']}", "reproduced": True, "replay_msg": "",
                                    "replay": {"harness": self.name, "prog": p}})
        hr.exhaustive = not hr.inconclusive and not hr.crashes
        hr.samples = [{"prog": r["prog"], "result": r["result"], "paths": r["paths"]} for r in results[:: max(1, len(results) // 4)]][:4]
        hr.detail = {"programs": len(results), "holds": sum(1 for r in results if r["result"] == "holds"), "comparison_paths": sum(r["paths"] for r in results)}
        hr.wall_s = time.perf_counter() - t0
        return hr

    def replay(self, rep):
        p = rep["prog"]
        prog = tuple(tuple(x) if isinstance(x, list) else x for x in p)
        r = run_program(prog)
        return r["result"] == "violated", r.get("key", ""), r.get("why", "")


register(Fluent())
