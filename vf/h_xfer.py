"""C07 -- transfers, fetches and purges through real DataServer objects over a faulty fake network."""

from __future__ import annotations

import pickle

from vf import fakezmq, repo_env
from vf.engine_xh import HarnessError, Violation
from vf.runner import Harness, register

repo_env.setup()
from vf import sim_cluster  # noqa: E402
from vf.h_comms import CLOCK, Net, SteppedListener, StopStep  # noqa: E402  (also installs the clock into comms)
import cascade.executor.comms as comms  # noqa: E402
import cascade.executor.data_server as ds_mod  # noqa: E402
import cascade.executor.serde as serde  # noqa: E402
from cascade.executor.msg import (Ack, DatasetPublished, DatasetPurge, DatasetTransmitCommand, DatasetTransmitFailure, DatasetTransmitPayload, Syn)  # noqa: E402
from cascade.executor.runner.memory import ds2shmid  # noqa: E402
from cascade.low.core import DatasetId  # noqa: E402


class Fut:
    def __init__(self, pool, fn, args):
        self.pool, self.fn, self.args = pool, fn, args
        self._done, self._res, self._exc = False, None, None

    def run(self):
        if self._done:
            return
        try:
            self._res = self.fn(*self.args)
        except Exception as e:  # what a thread pool does
            self._exc = e
        self._done = True

    def done(self):
        # a job on another thread may finish between any two looks at it: the harness may let a pending job complete at
        # the very moment it is observed
        if not self._done and WORLD.get("observe") is not None and WORLD["observe"](self):
            srv = WORLD.get("cur")
            if srv is not None:
                run_fut(srv, self)
        return self._done

    def exception(self):
        return self._exc

    def result(self):
        if self._exc:
            raise self._exc
        return self._res


class Pool:
    def __init__(self, host):
        self.host, self.futs = host, []

    def submit(self, fn, *args):
        f = Fut(self, fn, args)
        self.futs.append(f)
        return f

    def pending(self):
        return [f for f in self.futs if not f._done]


WORLD = {"servers": {}, "cur": None}
SHIM = sim_cluster.ShmClientShim()


def run_fut(server, f):
    SHIM.current = server._store
    f.run()


def fake_wait(futs, timeout=None, return_when=None):
    """concurrent.futures.wait: blocking means the pending jobs get to run (atomically)."""
    futs = list(futs)
    srv = WORLD["cur"]
    for f in futs:
        if not f.done():
            run_fut(srv, f)
            if return_when == ds_mod.FIRST_COMPLETED:
                break
    return set(f for f in futs if f.done()), set(f for f in futs if not f.done())


ds_mod.wait = fake_wait
ds_mod.shm_client = SHIM
ds_mod.time_ns = CLOCK.time_ns
repo_env.STUBS_IN_FORCE += ["DataServer thread pool -> deferred jobs run atomically when the harness (or a blocking wait) picks them",
                            "cascade.shm.client inside data_server -> per-host FakeShmClient (no memory pressure)", "data_server.time_ns -> harness clock"]

C_ADDR = "tcp://ctrl:1"


def make_server(host):
    s = ds_mod.DataServer.__new__(ds_mod.DataServer)
    s.host = host
    s.maddress = f"tcp://{host}:m"
    s.daddress = f"tcp://{host}:d"
    s.dlistener = SteppedListener(comms.Listener(s.daddress))
    s.terminating = False
    s.cap = 2
    s.ds_proc_tp = Pool(host)
    s.futs_in_progress = {}
    s.awaiting_confirmation = {}
    s.invalid = set()
    s.acks = set()
    s._store = sim_cluster.HostStore(host)
    return s


def step(server):
    WORLD["cur"] = server
    SHIM.current = server._store
    server.dlistener.calls = 0
    server.terminating = False
    try:
        server.recv_loop()
    except StopStep:
        pass
    except Exception as e:
        raise Violation(f"data-server-crashed-{type(e).__name__}", f"{server.host}: {e}")


D = DatasetId("t", "0")
E_DS = DatasetId("e", "0")  # a second dataset on the source host
Y_DS = DatasetId("y", "0")  # a dataset on the target host, transferred the other way
VALUE, DESER = b"\x01\x02payload-bytes", "cloudpickle.loads"
VALUES = {D: (VALUE, DESER), E_DS: (b"EEEE", "cloudpickle.loads"), Y_DS: (b"YY", "other.loads")}
COMMANDS = ["transmit", "transmit-again", "fetch", "purge-target", "purge-source-after-arrival", "transmit-E", "transmit-back"]


class Xfer(Harness):
    name = "data-transfers"
    engine = "E1-crosshair"
    properties = ("C07",)
    rule = "one path = (command list, per-transmission deliver/drop/duplicate/delay, order of server steps / job completions / clock jumps); non-trivial = >=1 fault or >=2 commands"
    assumptions = ["fakezmq contract; faults only on the frames between data servers and towards the controller", "a pool job runs atomically",
                   "the controller purges a source only after the target announced the arrival (C04)", "fair tail on a perfect network with clock jumps beyond the 4 s resend grace"]
    outside = [">2 hosts in the quick tier, payload splitting, real thread timing inside a job"]

    def shards(self, tier):
        from vf.engine_xh import split_prefixes

        F = 3 if tier == "quick" else 5
        S = 4 if tier == "quick" else 6
        out = []
        lists = [["transmit"], ["fetch"], ["transmit", "transmit-again"], ["transmit", "fetch"], ["transmit", "purge-target"], ["transmit", "purge-source-after-arrival"],
                 ["transmit", "transmit-E"], ["transmit-back", "transmit"], ["transmit-E", "transmit", "purge-target"]]
        if tier == "thorough":
            lists += [["transmit", "transmit-again", "purge-target"], ["transmit", "fetch", "purge-source-after-arrival"], ["fetch", "transmit", "transmit-again"],
                      ["transmit-back", "transmit-E", "transmit"], ["transmit-E", "transmit", "fetch"]]
        for cl in (["transmit"], ["fetch"], ["transmit", "transmit-E"]):
            base = {"commands": cl, "F": 1, "S": 3 if tier == "quick" else 4, "spont": True}
            out += [{**base, "_prefix": p} for p in split_prefixes(self.body, base, 8)]
        for cl in lists:
            base = {"commands": cl, "F": F if len(cl) < 3 else F - 1, "S": S if len(cl) < 3 else S - 1}
            out += [{**base, "_prefix": p} for p in split_prefixes(self.body, base, ((64 if "transmit-back" in cl else 24) if len(cl) >= 2 else 8) if tier == "quick" else 64)]
        return out

    def budget(self, tier):
        return 100.0 if tier == "quick" else 900.0

    def bounds(self, tier):
        return {"hosts": 2, "commands": "1..3" if tier == "quick" else "1..3 (more lists)", "datasets": "two on the source host, one on the target host (transferred back)", "unrelated_controller_messages_first": "0..1 (lists with a back-transfer)", "faulty_transmissions_F": 3 if tier == "quick" else 5, "free_steps_S": 4 if tier == "quick" else 6}

    def functions(self):
        return [ds_mod.DataServer.recv_loop, ds_mod.DataServer.send_payload, ds_mod.DataServer.store_payload, ds_mod.DataServer.maybe_clean, comms.Listener, comms.send_data, comms.callback]

    def body(self, ch, params):
        with ch.untraced():
            fakezmq.NET.reset()
            CLOCK.now = 1_000_000_000_000
            A, B = make_server("hA"), make_server("hB")
            ctrl = comms.Listener(C_ADDR)
            sender = comms.ReliableSender(C_ADDR, 800)
            sender.add_host("data.hA", A.daddress)
            sender.add_host("data.hB", B.daddress)
            A._store.data[ds2shmid(D)] = VALUES[D]
            A._store.data[ds2shmid(E_DS)] = VALUES[E_DS]
            B._store.data[ds2shmid(Y_DS)] = VALUES[Y_DS]
            sender.add_host("elsewhere", "tcp://else:1")
            for _ in range(ch.pick(2, "noise") if "transmit-back" in params["commands"] else 0):
                # unrelated acknowledged traffic shifts the controller's message counter against its transfer counter
                sender.send("elsewhere", DatasetPurge(ds=DatasetId("zz", "0")))
                sender.ack(sender.idx - 1)  # ... and was acknowledged long ago
            net = Net(ch, params["F"])
            net_addrs = {A.daddress, B.daddress, C_ADDR}
            inner = net.__call__

            def fault(address, frames):
                if address not in net_addrs or len(frames) == 1 and address != C_ADDR and not self._is_ack(frames):
                    return [frames]  # commands from the controller and local notices are not under test here (C06)
                return inner_fault(address, frames)

            def inner_fault(address, frames):
                # reuse Net's decision logic, but for these addresses
                out = []
                if net.n < net.F:
                    net.n += 1
                    kind = ch.pick(4, f"net{net.n}")
                else:
                    kind = 0
                net.log.append(("deliver", "drop", "dup", "delay")[kind])
                if kind == 0:
                    out = [frames]
                elif kind == 2:
                    out = [frames, list(frames)]
                elif kind == 3:
                    net.limbo.setdefault(address, []).append(frames)
                    return []
                if net.limbo.get(address):
                    out += net.limbo.pop(address)
                return out

            fakezmq.NET.fault = fault
            cmds = list(params["commands"])
            idx = 0
            issued, fetch_payloads = [], []
            purged_target = False

            def issue(c):
                nonlocal idx, purged_target
                if c in ("transmit", "transmit-again"):
                    sender.send("data.hA", DatasetTransmitCommand(source="hA", target="hB", daddress=B.daddress, ds=D, idx=idx))
                    idx += 1
                elif c == "transmit-E":
                    sender.send("data.hA", DatasetTransmitCommand(source="hA", target="hB", daddress=B.daddress, ds=E_DS, idx=idx))
                    idx += 1
                elif c == "transmit-back":
                    sender.send("data.hB", DatasetTransmitCommand(source="hB", target="hA", daddress=A.daddress, ds=Y_DS, idx=idx))
                    idx += 1
                elif c == "fetch":
                    sender.send("data.hA", DatasetTransmitCommand(source="hA", target="controller", daddress=C_ADDR, ds=D, idx=idx))
                    idx += 1
                elif c == "purge-target":
                    comms.callback(B.daddress, DatasetPurge(ds=D))  # what the executor forwards
                    purged_target = True
                issued.append(c)

            def published(server, ds):
                return sum(1 for f in fakezmq.NET.queues.get(server.maddress, []) if isinstance((m := pickle.loads(f[0])), DatasetPublished) and m.ds == ds)

            def published_at_B():
                return published(B, D)

            def step_ctrl():
                for m in ctrl.recv_messages(0):
                    if isinstance(m, DatasetTransmitPayload):
                        fetch_payloads.append(m)
                    elif isinstance(m, Ack):
                        sender.ack(m.idx)

            def maybe_issue_next():
                if not cmds:
                    return False
                c = cmds[0]
                if c == "purge-source-after-arrival":
                    # the controller drops a source only after the target announced the arrival and after every fetch it commanded
                    # from that source has been answered (C04)
                    if published_at_B() == 0 or len(fetch_payloads) < issued.count("fetch"):
                        return False
                    cmds.pop(0)
                    comms.callback(A.daddress, DatasetPurge(ds=D))
                    issued.append(c)
                    return True
                cmds.pop(0)
                issue(c)
                return True

            maybe_issue_next()
            grace = 4_100_000_000
            WORLD["observe"] = None
            if params.get("spont"):
                # the k-th look at a still-running job is the moment it finishes
                kth = ch.pick(5, "job_finishes_at_observation") - 1
                seen_obs = {"n": 0}

                def observe(fut):
                    if kth < 0:
                        return False
                    seen_obs["n"] += 1
                    return seen_obs["n"] - 1 == kth

                WORLD["observe"] = observe
            for s in range(params["S"]):
                opts = ["stepA", "stepB", "stepC", "clock"]
                if A.ds_proc_tp.pending():
                    opts.append("jobA")
                if B.ds_proc_tp.pending():
                    opts.append("jobB")
                if cmds:
                    opts.append("next")
                a = opts[ch.pick(len(opts), f"s{s}")]
                if a == "stepA":
                    step(A)
                elif a == "stepB":
                    step(B)
                elif a == "stepC":
                    step_ctrl()
                elif a == "clock":
                    CLOCK.now += grace
                elif a == "jobA":
                    WORLD["cur"] = A
                    run_fut(A, A.ds_proc_tp.pending()[0])
                elif a == "jobB":
                    WORLD["cur"] = B
                    run_fut(B, B.ds_proc_tp.pending()[0])
                else:
                    maybe_issue_next()
            net.F = net.n
            for _ in range(14):
                for a, fs in list(net.limbo.items()):
                    for f in fs:
                        fakezmq.NET.q(a).append(f)
                net.limbo.clear()
                maybe_issue_next()
                for srv in (A, B):
                    step(srv)
                    WORLD["cur"] = srv
                    for f in srv.ds_proc_tp.pending():
                        run_fut(srv, f)
                    step(srv)
                step_ctrl()
                try:
                    sender.maybe_retry()
                except ValueError:
                    # with the retry budget lowered to 3 the injected faults can exhaust it: the controller's sender gives up loudly,
                    # which is the outcome the messaging layer promises (C06); nothing more is claimed about such a path
                    ch.note("nontrivial", True)
                    ch.note("faults", net.log)
                    WORLD["observe"] = None
                    return
                CLOCK.now += grace
            ch.note("faults", net.log)
            ch.note("issued", issued)
            ch.note("nontrivial", any(k != "deliver" for k in net.log) or len(issued) >= 2)
            if cmds:
                raise HarnessError(f"commands never issued: {cmds}")
            failures = [pickle.loads(f[0]) for q in (A.maddress, B.maddress) for f in fakezmq.NET.queues.get(q, []) if isinstance(pickle.loads(f[0]), DatasetTransmitFailure)]
            if failures:
                raise Violation("transfer-failure-reported", str(failures[0])[:200])
            key = ds2shmid(D)
            n_tx = sum(1 for c in issued if c.startswith("transmit"))
            n_fetch = issued.count("fetch")
            pubs = published_at_B()
            if n_tx and not purged_target:
                if key not in B._store.data:
                    raise Violation("transfer-never-stored", f"faults={net.log}")
                if B._store.data[key] != (VALUE, DESER):
                    raise Violation("transferred-copy-differs", f"{B._store.data[key]!r}")
                if pubs != 1:
                    raise Violation("arrival-announced-wrong-number-of-times", f"{pubs} announcements for one stored copy; faults={net.log} issued={issued}")
            if purged_target:
                if key in B._store.data:
                    raise Violation("dataset-resurrected-after-purge", f"faults={net.log}")
                if pubs > 1:
                    raise Violation("arrival-announced-wrong-number-of-times", f"{pubs}")
            if len(fetch_payloads) != n_fetch:
                raise Violation("fetch-delivered-wrong-number-of-times", f"{len(fetch_payloads)} payloads for {n_fetch} fetches; faults={net.log}")
            for p in fetch_payloads:
                if bytes(p.value) != VALUE or p.header.deser_fun != DESER or p.header.ds != D:
                    raise Violation("fetched-bytes-differ", repr(p)[:200])
            for c, srv, ds in (("transmit-E", B, E_DS), ("transmit-back", A, Y_DS)):
                if c in issued:
                    k2 = ds2shmid(ds)
                    if k2 not in srv._store.data:
                        raise Violation("transfer-never-stored", f"{ds} at {srv.host}; faults={net.log} issued={issued}")
                    if srv._store.data[k2] != VALUES[ds]:
                        raise Violation("transferred-copy-differs", f"{ds}: {srv._store.data[k2]!r}")
                    if published(srv, ds) != 1:
                        raise Violation("arrival-announced-wrong-number-of-times", f"{ds}: {published(srv, ds)} announcements")
            WORLD["observe"] = None
            for srv in (A, B):
                if srv.ds_proc_tp.pending() or srv.futs_in_progress:
                    raise Violation("jobs-left-running-at-quiescence", srv.host)
                for tidx, (cmd, at) in srv.awaiting_confirmation.items():
                    if at == -1 and cmd not in srv.futs_in_progress:
                        raise Violation("completed-send-never-recorded", f"{srv.host}: transfer {tidx} was sent but its completion time was never noted, so a lost payload or confirmation can not be retried")

    @staticmethod
    def _is_ack(frames):
        try:
            return isinstance(pickle.loads(frames[0]), Ack)
        except Exception:
            return False


register(Xfer())
