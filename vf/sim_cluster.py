"""SimCluster -- an in-process model of the executors behind the controller's Bridge interface.

What is real: the controller loop and everything it calls (controller.impl.run, notify, act, scheduler.api,
scheduler.assign, scheduler.graph.precompute) and the worker side of a task: RunnerContext.project, runner.run,
runner.memory.Memory, executor.serde.ser_output/des_output.

What is modelled (contract, established for the real code by the C02-worker, C06 and C07 harnesses):
* each executor reports on one FIFO channel (its DatasetPublished notices arrive in the order they were produced);
* each data server answers fetches on its own FIFO channel;
* a worker starts a task sequence only once every input is in its host's store; it is busy until the sequence ran;
* a transfer copies bytes+deser_fun from the source store to the target store and the target announces it once;
  a redundant transfer of something the target already has is announced not at all;
* purge commands take effect immediately (the most adversarial order w.r.t. outstanding transfers/fetches).
Scheduling decisions (which pending action runs next, which channel delivers next, whether recv_events returns now or
batches more) are taken from the chooser for the first K decisions, then by a fixed fair default.
"""

from __future__ import annotations

import contextlib
from collections import deque

from vf.engine_xh import HarnessError, Violation


class FakeBuf:
    def __init__(self, store, key, size, deser_fun, create):
        self.store, self.key, self.deser_fun = store, key, deser_fun
        self.create = create
        if create:
            self.data = bytearray(size)
        else:
            self.data, self.deser_fun = store.data[key]
        self.closed = False

    def view(self):
        return memoryview(self.data)

    def close(self):
        if self.closed:
            return
        self.closed = True
        if self.create:
            if self.store.defer:
                self.store.staged[self.key] = (bytes(self.data), self.deser_fun)
            else:
                self.store.data[self.key] = (bytes(self.data), self.deser_fun)
        else:
            self.store.readers[self.key] = self.store.readers.get(self.key, 1) - 1


class ConflictError(Exception):
    pass


class HostStore:
    """Per-host stand-in for the shm client+server in the no-pressure case."""

    def __init__(self, host):
        self.host = host
        self.data: dict[str, tuple[bytes, str]] = {}
        self.readers: dict[str, int] = {}
        self.defer = False  # while a generator task runs, its outputs become visible one publication at a time
        self.staged: dict[str, tuple[bytes, str]] = {}

    def allocate(self, key, l, deser_fun, timeout_sec=60.0):
        if key in self.data or key in self.staged:
            raise ConflictError(key)
        return FakeBuf(self, key, l, deser_fun, True)

    def get(self, key, timeout_sec=60.0):
        if key not in self.data:
            raise Violation("worker-read-missing-dataset", f"{key} not in store of {self.host}")
        self.readers[key] = self.readers.get(key, 0) + 1
        return FakeBuf(self, key, 0, "", False)

    def purge(self, key):
        self.data.pop(key, None)


class ShmClientShim:
    """Module-level shim installed as cascade.executor.runner.memory.shm_client: routes to the current host's store."""

    ConflictError = ConflictError

    def __init__(self):
        self.current: HostStore | None = None

    def allocate(self, key, l, deser_fun, timeout_sec=60.0):
        return self.current.allocate(key, l, deser_fun)

    def get(self, key, timeout_sec=60.0):
        return self.current.get(key)

    def purge(self, key):
        return self.current.purge(key)


SHIM = ShmClientShim()
_CALLBACK_SINK = {"fn": None}


def _callback(address, msg):
    _CALLBACK_SINK["fn"](address, msg)


_installed = False


def install():
    global _installed
    if _installed:
        return
    _installed = True
    import cascade.executor.runner.memory as memory
    from vf import repo_env

    memory.shm_client = SHIM
    memory.callback = _callback
    repo_env.patch_perf_counters()
    repo_env.STUBS_IN_FORCE.append("FakeShmClient per host (allocate/get/purge/ConflictError, no memory pressure) replaces cascade.shm.client in runner.memory")
    repo_env.STUBS_IN_FORCE.append("runner.memory.callback -> the simulated executor's report queue")
    repo_env.STUBS_IN_FORCE.append("SimCluster replaces Bridge + executors + data servers (contract in vf/sim_cluster.py)")


class SimCluster:
    def __init__(self, job, hosts: list[list[int]], ch, budget: int, monitors: set[str], untraced):
        """hosts: per host a list of gpu flags, one per worker."""
        install()
        from cascade.executor.runner.entrypoint import RunnerContext
        from cascade.executor.runner.memory import Memory, ds2shmid
        from cascade.low.core import Environment, Worker, WorkerId
        from cascade.low.views import param_source

        self.ds2shmid = ds2shmid
        self.job, self.ch, self.budget, self.monitors, self.untraced = job, ch, budget, monitors, untraced
        self.param_source = param_source(job.edges)
        self.workers: dict = {}
        self.stores: dict[str, HostStore] = {}
        self.memories: dict = {}
        self.contexts: dict = {}
        self.host_workers: dict[str, list] = {}
        for hi, gpus in enumerate(hosts):
            h = f"h{hi}"
            self.stores[h] = HostStore(h)
            self.host_workers[h] = []
            for wi, g in enumerate(gpus):
                w = WorkerId(h, f"w{wi}")
                self.workers[w] = Worker(cpu=1, gpu=g, memory_mb=1024)
                self.host_workers[h].append(w)
                self.memories[w] = Memory(f"exec://{h}", w)
                self.contexts[w] = RunnerContext(workerId=w, job=job, callback=f"exec://{h}", param_source=self.param_source)
        self.env = Environment(workers=dict(self.workers))
        # ground truth
        self.dispatched: dict[str, object] = {}  # task -> worker
        self.ran: set[str] = set()
        self.pending: list = []  # ("run", worker, TaskSequence) | ("xfer", ds, src, tgt, idx) | ("fetch", ds, src, idx)
        self.queues: dict[str, deque] = {f"h{i}": deque() for i in range(len(hosts))}
        for i in range(len(hosts)):
            self.queues[f"data.h{i}"] = deque()
        self.delivered_outputs: set = set()
        self.purged: dict = {}  # ds -> set(hosts)
        self.idx = 0
        self.shutdowns = 0
        self.trace: list = []
        self.overtake = False
        self.fail_at: int | None = None  # recv_events call index at which a failure is injected (C05)
        self.recv_calls = 0
        self.consumers: dict = {}
        for e in job.edges:
            self.consumers.setdefault(e.source, set()).add(e.sink_task)
        self.ext = set(job.ext_outputs)
        _CALLBACK_SINK["fn"] = self._on_callback
        self._cur_host = None
        self._staging = None

    # -- helpers ------------------------------------------------------------------------
    def holds(self, host, ds) -> bool:
        return self.ds2shmid(ds) in self.stores[host].data

    def exists_somewhere(self, ds) -> bool:
        return any(self.holds(h, ds) for h in self.stores)

    def _on_callback(self, address, msg):
        if self._staging is not None:
            self._staging.append(msg)
        else:
            self.queues[self._cur_host].append(msg)

    def mon(self, name):
        return name in self.monitors

    # -- Bridge interface ---------------------------------------------------------------
    def get_environment(self):
        return self.env

    def task_sequence(self, ts) -> None:
        w = ts.worker
        self.trace.append(("dispatch", repr(w), list(ts.tasks)))
        if self.mon("C02"):
            if w not in self.workers:
                raise Violation("dispatch-to-unknown-worker", repr(w))
            if any(p[0] in ("run", "pub") and p[1] == w for p in self.pending):
                raise Violation("dispatch-to-busy-worker", f"{w} got {ts.tasks} while still owing a sequence")
            for t in ts.tasks:
                if t in self.dispatched:
                    raise Violation("task-dispatched-twice", f"{t} to {self.dispatched[t]} and {w}")
                if self.job.tasks[t].definition.needs_gpu and self.workers[w].gpu <= 0:
                    raise Violation("gpu-task-on-cpu-worker", f"{t} -> {w}")
            own = {d for t in ts.tasks for d in self.job.outputs_of(t)}
            for t in ts.tasks:
                for ds in self.param_source[t].values() if t in self.param_source else []:
                    if ds in own:
                        continue
                    if not self.exists_somewhere(ds):
                        raise Violation("dispatch-before-input-produced", f"{t} needs {ds} which exists nowhere")
                    if not self.holds(w.host, ds) and not any(p[0] == "xfer" and p[1] == ds and p[3] == w.host for p in self.pending):
                        raise Violation("dispatch-without-input-on-host", f"{t}@{w}: {ds} neither on {w.host} nor being transferred there")
        for t in ts.tasks:
            self.dispatched.setdefault(t, w)
        self.pending.append(("run", w, ts))

    def transmit(self, ds, source, target) -> None:
        self.trace.append(("transmit", repr(ds), source, target))
        if self.mon("C04"):
            if not self.holds(source, ds):
                raise Violation("transmit-from-host-without-dataset", f"{ds}: {source}->{target}")
        self.pending.append(("xfer", ds, source, target, self.idx))
        self.idx += 1

    def fetch(self, ds, source) -> None:
        self.trace.append(("fetch", repr(ds), source))
        if self.mon("C04"):
            if not self.holds(source, ds):
                raise Violation("fetch-from-host-without-dataset", f"{ds} from {source}")
        self.pending.append(("fetch", ds, source, self.idx))
        self.idx += 1

    def purge(self, host, ds) -> None:
        self.trace.append(("purge", repr(ds), host))
        if self.mon("C04"):
            if not self.holds(host, ds):
                raise Violation("purge-of-dataset-not-held", f"{ds} at {host}")
            for t in self.consumers.get(ds, ()):
                if t not in self.ran:
                    raise Violation("purge-while-still-needed", f"{ds} at {host}: consumer {t} has not run")
            if ds in self.ext and ds not in self.delivered_outputs:
                raise Violation("purge-before-output-delivered", f"requested output {ds} purged at {host} before its value reached the caller")
            for p in self.pending:
                if p[0] == "xfer" and p[1] == ds and p[2] == host:
                    raise Violation("purge-with-unanswered-transfer", f"{ds} at {host}: transfer to {p[3]} outstanding")
                if p[0] == "fetch" and p[1] == ds and p[2] == host:
                    raise Violation("purge-with-unanswered-fetch", f"{ds} at {host}: fetch outstanding")
        for w in self.host_workers[host]:
            self.memories[w].pop(ds)
        self.stores[host].purge(self.ds2shmid(ds))
        self.purged.setdefault(ds, set()).add(host)

    def shutdown(self) -> None:
        self.shutdowns += 1

    # -- the world moves -----------------------------------------------------------------
    def _enabled(self):
        out = []
        for i, p in enumerate(self.pending):
            if p[0] == "run":
                _, w, ts = p
                own = {d for t in ts.tasks for d in self.job.outputs_of(t)}
                need = {ds for t in ts.tasks for ds in (self.param_source[t].values() if t in self.param_source else [])} - own
                if all(self.holds(w.host, ds) for ds in need):
                    out.append(i)
            elif p[0] == "pub":
                # publications of one worker happen in order
                if not any(q[0] == "pub" and q[1] == p[1] for q in self.pending[:i]):
                    out.append(i)
            elif p[0] == "xfer":
                if self.holds(p[2], p[1]):
                    out.append(i)
            elif p[0] == "fetch":
                if self.holds(p[2], p[1]):
                    out.append(i)
        return out

    def _execute(self, i):
        from cascade.executor.msg import DatasetPublished, DatasetTransmitPayload, DatasetTransmitPayloadHeader
        from cascade.executor.runner.runner import run

        p = self.pending.pop(i)
        if p[0] == "run":
            _, w, ts = p
            self._cur_host = w.host
            SHIM.current = self.stores[w.host]
            with self.untraced():
                ectx = self.contexts[w].project(ts)
                for t in ts.tasks:
                    multi = len(self.job.tasks[t].definition.output_schema) > 1
                    if multi:
                        # a generator publishes output by output while it is still running: stage them
                        self.stores[w.host].defer = True
                        self._staging = []
                    inst = self.job.tasks[t]
                    before = (dict(inst.static_input_kw), dict(inst.static_input_ps))
                    try:
                        run(t, ectx, self.memories[w])
                    except Violation:
                        raise
                    except Exception as e:
                        raise Violation("task-failed-in-worker", f"{t}@{w}: {type(e).__name__}: {e}")
                    finally:
                        self.stores[w.host].defer = False
                    if (dict(inst.static_input_kw), dict(inst.static_input_ps)) != before:
                        raise Violation("running-a-task-modified-the-job", f"{t}: static inputs {before} -> {(dict(inst.static_input_kw), dict(inst.static_input_ps))} (another node sharing this task description computes with them)")
                    if multi:
                        evs, self._staging = self._staging, None
                        for k, ev in enumerate(evs):
                            self.pending.append(("pub", w, ev, t if k == len(evs) - 1 else None))
                        if not evs:
                            self.ran.add(t)
                    else:
                        self.ran.add(t)
                self.memories[w].flush()
            self.trace.append(("ran", repr(w), list(ts.tasks)))
        elif p[0] == "pub":
            _, w, ev, last_of = p
            key = self.ds2shmid(ev.ds)
            store = self.stores[w.host]
            if key in store.staged:
                store.data[key] = store.staged.pop(key)
            self.queues[w.host].append(ev)
            if last_of is not None:
                self.ran.add(last_of)  # the generator is exhausted only now
            self.trace.append(("published", repr(w), repr(ev.ds)))
        elif p[0] == "xfer":
            _, ds, src, tgt, idx = p
            key = self.ds2shmid(ds)
            if key not in self.stores[src].data:
                raise Violation("transfer-source-lost-dataset", f"{ds} {src}->{tgt}")
            if key not in self.stores[tgt].data:
                self.stores[tgt].data[key] = self.stores[src].data[key]
                self.queues[tgt].append(DatasetPublished(origin=tgt, ds=ds, transmit_idx=idx))
            self.trace.append(("xferred", repr(ds), src, tgt))
        elif p[0] == "fetch":
            _, ds, src, idx = p
            key = self.ds2shmid(ds)
            if key not in self.stores[src].data:
                raise Violation("fetch-source-lost-dataset", f"{ds} from {src}")
            value, deser_fun = self.stores[src].data[key]
            hdr = DatasetTransmitPayloadHeader(confirm_address="x", confirm_idx=idx, ds=ds, deser_fun=deser_fun)
            self.queues["data." + src].append(DatasetTransmitPayload(header=hdr, value=value))
            self.trace.append(("fetched", repr(ds), src))

    def recv_events(self):
        from cascade.executor.msg import DatasetTransmitPayload

        self.recv_calls += 1
        if self.fail_at is not None and self.recv_calls > self.fail_at:
            self.shutdown()
            raise ValueError("injected executor failure")
        events = []
        guard = 0
        while True:
            guard += 1
            if guard > 10_000:
                raise HarnessError("sim did not converge")
            en = self._enabled()
            qs = [q for q in sorted(self.queues) if self.queues[q]]
            if not en and not qs and not events:
                if self.pending:
                    raise Violation("stuck-pending-never-enabled", f"controller waits but pending {[(p[0], repr(p[1])) for p in self.pending]} can never run")
                raise Violation("waits-with-nothing-outstanding", "recv_events called while no command is outstanding and no event is queued")
            options = [("act", i) for i in en] + [("deliver", q) for q in qs] + ([("return", None)] if events else [])
            if self.overtake:
                # a message that was lost and retried is overtaken by the one sent after it
                options += [("overtake", q) for q in qs if len(self.queues[q]) >= 2]
            if self.budget > 0 and len(options) > 1:
                self.budget -= 1
                kind, arg = options[self.ch.pick(len(options), f"sched{len(self.trace)}")]
            else:
                # fair default: hand over what we have; else deliver the oldest queue head; else run the oldest enabled action
                if events:
                    kind, arg = "return", None
                elif qs:
                    kind, arg = "deliver", qs[0]
                else:
                    kind, arg = "act", en[0]
            if kind == "return":
                return events
            if kind in ("deliver", "overtake"):
                if kind == "overtake":
                    first = self.queues[arg].popleft()
                    ev = self.queues[arg].popleft()
                    self.queues[arg].appendleft(first)
                else:
                    ev = self.queues[arg].popleft()
                if isinstance(ev, DatasetTransmitPayload):
                    self.delivered_outputs.add(ev.header.ds)
                events.append(ev)
                self.trace.append(("deliver", arg, type(ev).__name__, repr(getattr(ev, "ds", None) or ev.header.ds)))
            else:
                self._execute(arg)
