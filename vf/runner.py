"""Harness registry, sharded execution, replay, known-findings, evidence, exit codes."""

from __future__ import annotations

import json
import multiprocessing as mp
import os
import sys
import time
import traceback
from dataclasses import asdict, dataclass, field
from typing import Any, Callable

VERIF = os.path.dirname(os.path.dirname(os.path.abspath(__file__)))
# VF_OUT redirects evidence and replays (used when the checks are pointed at a scratch copy of the repository via VF_REPO)
_OUT = os.environ.get("VF_OUT") or VERIF
EVIDENCE_DIR = os.path.join(_OUT, "evidence")
REPLAY_DIR = os.path.join(_OUT, "replays")
KNOWN_FILE = os.path.join(VERIF, "known_findings.json")

EXIT_OK, EXIT_VIOLATION, EXIT_HARNESS = 0, 1, 2


@dataclass
class HarnessResult:
    name: str
    engine: str
    evaluations: int = 0
    nontrivial: int = 0
    exhaustive: bool = False
    inconclusive: list = field(default_factory=list)
    failures: list = field(default_factory=list)  # dicts: key,msg,reproduced,replay(dict)
    crashes: list = field(default_factory=list)
    samples: list = field(default_factory=list)
    solver_queries: int = 0
    solver_seconds: float = 0.0
    bounds: dict = field(default_factory=dict)
    functions: list = field(default_factory=list)
    assumptions: list = field(default_factory=list)
    outside: list = field(default_factory=list)
    detail: dict = field(default_factory=dict)
    wall_s: float = 0.0
    rule: str = ""


class Harness:
    """Base class. Subclasses: E1 harnesses implement shards/body; others override run()."""

    name = "?"
    engine = "E1-crosshair"
    properties: tuple = ()
    rule = "distinct decision sequences (pick log) that reached the final assertion"
    assumptions: list = []
    outside: list = []

    # --- E1 interface -------------------------------------------------------------------
    def shards(self, tier: str) -> list:
        return [None]

    def budget(self, tier: str) -> float:
        """CPU seconds per shard."""
        return 60.0 if tier == "quick" else 600.0

    def per_path_timeout(self, tier: str) -> float:
        return 30.0

    def body(self, ch, params) -> None:
        raise NotImplementedError

    def bounds(self, tier: str) -> dict:
        return {}

    def functions(self) -> list:
        return []

    def setup(self) -> None:
        """Called once in every process before body is used (stubs)."""

    # --- generic ------------------------------------------------------------------------
    custom_run = None  # non-E1 harnesses set this to a callable(tier, seed, jobs) -> HarnessResult

    def tasks(self, tier: str, seed: int) -> list:
        return [(self, i, p, tier, seed) for i, p in enumerate(self.shards(tier))]

    def aggregate(self, tier: str, results: list, wall: float) -> "HarnessResult":
        from vf import repo_env

        hr = HarnessResult(name=self.name, engine=self.engine)
        hr.bounds = self.bounds(tier)
        hr.bounds["shards"] = len(results)
        hr.bounds["budget_cpu_s_per_shard"] = round(min(self.budget(tier), getattr(self, "_budget_cap", 1e9)), 1)
        hr.functions = repo_env.describe(self.functions())
        hr.assumptions = list(self.assumptions)
        hr.outside = list(self.outside)
        hr.rule = self.rule
        all_exh = True
        paths = reached = ignored = unknown = 0
        for r in results:
            if isinstance(r, dict) and "fatal" in r:
                hr.crashes.append(r)
                all_exh = False
                continue
            paths += r.paths
            reached += r.reached
            ignored += r.ignored
            unknown += r.unknown
            hr.nontrivial += r.nontrivial
            hr.solver_queries += r.solver_queries
            hr.solver_seconds += r.solver_seconds
            if not r.exhausted:
                all_exh = False
                hr.inconclusive.append(
                    {"shard": _short(r.params), "reason": r.stop_reason, "paths": r.paths, "unknown_paths": r.unknown}
                )
            for f in r.failures:
                hr.failures.append(
                    {
                        "key": f.key,
                        "msg": f.msg,
                        "reproduced": f.reproduced,
                        "replay_msg": f.replay_msg,
                        "replay": {"harness": self.name, "params": f.params, "choices": f.log, "notes": f.notes},
                    }
                )
            hr.crashes.extend(r.crashes)
            for s in r.samples:
                if len(hr.samples) < 4:
                    hr.samples.append(s)
        hr.evaluations = reached
        hr.exhaustive = all_exh and not hr.crashes
        hr.detail = {"paths": paths, "reached_assertion": reached, "ignored_by_assumption": ignored, "unknown_paths": unknown,
                     "cpu_s": round(sum(getattr(r, "cpu_s", 0) for r in results if not isinstance(r, dict)), 1)}
        hr.wall_s = wall
        return hr


# total CPU seconds a check may spend in exploration (16 cores): the per-shard budget is capped so that the worst case stays
# within it; a shard that hits its budget is reported as INCONCLUSIVE (never as exhausted)
TIER_CPU = {"quick": 16 * 300.0, "thorough": 16 * 1500.0}


def run_pooled(harnesses: list, tier: str, seed: int, jobs: int, cpu_total: float | None = None) -> list:
    """All shards of all E1 harnesses share one process pool (longest budgets first)."""
    t0 = time.perf_counter()
    tasks = []
    for h in harnesses:
        tasks.extend(h.tasks(tier, seed))
    # most shards finish far below their budget, so the floor keeps the big ones exhaustive; the worst case (every shard at its
    # budget) stays bounded by floor * shards / cores
    floor = float(os.environ.get("VF_FLOOR", 90.0 if tier == "quick" else 120.0))  # VF_FLOOR: smoke runs of the thorough tier (every shard, a few seconds each)
    cap = max(floor, float(os.environ.get("VF_CPU_TOTAL", cpu_total or TIER_CPU[tier])) / max(1, len(tasks)))
    for h in harnesses:
        h._budget_cap = cap
    tasks.sort(key=lambda t: -t[0].budget(tier))
    by_h: dict[str, list] = {h.name: [] for h in harnesses}
    if jobs <= 1 or len(tasks) <= 1:
        for t in tasks:
            by_h[t[0].name].append(_run_shard(t))
    else:
        ctx = mp.get_context("fork")
        with ctx.Pool(min(jobs, len(tasks)), maxtasksperchild=8) as pool:
            for name, r in pool.imap_unordered(_run_shard_named, tasks, chunksize=1):
                by_h[name].append(r)
    wall = time.perf_counter() - t0
    return [h.aggregate(tier, by_h[h.name], wall) for h in harnesses]


def _run_shard_named(task):
    return task[0].name, _run_shard(task)


def _short(p, n=120):
    s = repr(p)
    return s if len(s) <= n else s[: n - 3] + "..."


def _run_shard(task):
    harness, idx, params, tier, seed = task
    try:
        from vf import engine_xh

        harness.setup()
        r = engine_xh.explore(
            harness.body,
            params,
            budget_s=min(harness.budget(tier), getattr(harness, "_budget_cap", 1e9)),
            per_path_timeout=harness.per_path_timeout(tier),
            seed=seed * 1000 + idx,
        )
        # replay every counterexample natively (no tracer, no proxies) before it may be reported
        for f in r.failures:
            ok, key, msg = engine_xh.replay(harness.body, params, f.log)
            f.reproduced = bool(ok and key == f.key)
            f.replay_msg = f"{key}: {msg}"
        return r
    except BaseException as e:  # noqa
        return {"fatal": f"{type(e).__name__}: {e}", "trace": traceback.format_exc()[-2000:], "shard": _short(params)}


# ----------------------------------------------------------------------------------------------
REGISTRY: dict[str, Harness] = {}


def register(h: Harness) -> Harness:
    REGISTRY[h.name] = h
    return h


def load_known() -> dict:
    if os.path.exists(KNOWN_FILE):
        return json.load(open(KNOWN_FILE))
    return {"findings": [], "fixed": []}


def check_property(pid: str, harnesses: list[Harness], tier: str, seed: int, jobs: int, level: str = "other",
                   explanation: str = "", cpu_total: float | None = None) -> int:
    t0 = time.perf_counter()
    known = [k for k in load_known().get("findings", []) if k["property"] == pid]
    results: list[HarnessResult] = []
    pooled = [h for h in harnesses if h.custom_run is None]
    try:
        if pooled:
            results.extend(run_pooled(pooled, tier, seed, jobs, cpu_total))
    except BaseException as e:  # noqa
        hr = HarnessResult(name="+".join(h.name for h in pooled), engine="E1-crosshair")
        hr.crashes.append({"fatal": f"{type(e).__name__}: {e}", "trace": traceback.format_exc()[-3000:]})
        results.append(hr)
    for h in harnesses:
        if h.custom_run is None:
            continue
        try:
            results.append(h.custom_run(tier, seed, jobs))
        except BaseException as e:  # noqa
            hr = HarnessResult(name=h.name, engine=h.engine)
            hr.crashes.append({"fatal": f"{type(e).__name__}: {e}", "trace": traceback.format_exc()[-3000:]})
            results.append(hr)
    violations, known_hits, harness_errors = [], [], []
    os.makedirs(os.path.join(REPLAY_DIR, pid), exist_ok=True)
    for hr in results:
        for c in hr.crashes:
            harness_errors.append(f"{hr.name}: {str(c)[:600]}")
        if hr.evaluations == 0 and not hr.crashes:
            harness_errors.append(f"{hr.name}: no path reached the assertion (vacuous)")
        seen_keys = set()
        for f in hr.failures:
            match = next((k for k in known if k["harness"] == hr.name and k["key"] == f["key"]), None)
            if f["reproduced"] is False:
                harness_errors.append(f"{hr.name}: counterexample {f['key']} did not reproduce natively ({f['replay_msg']})")
                continue
            if match is not None:
                if f["key"] not in seen_keys:
                    known_hits.append((match, hr.name))
                seen_keys.add(f["key"])
                continue
            n = len(violations)
            path = os.path.join(REPLAY_DIR, pid, f"{hr.name}-{n}.json")
            with open(path, "w") as fh:
                json.dump({"property": pid, "key": f["key"], "msg": f["msg"], **f["replay"]}, fh, indent=1, default=repr)
            violations.append((path, hr.name, f["key"], f["msg"]))
    for k, hname in known_hits:
        print(f"KNOWN-FINDING: property={pid} {k['what']} [harness={hname} key={k['key']}]")
    for hr in results:
        for inc in hr.inconclusive:
            print(f"INCONCLUSIVE harness={hr.name} {json.dumps(inc, default=repr)[:300]}")
    for path, hname, key, msg in violations:
        print(f"VIOLATION property={pid} replay={path}")
        print(f"  harness={hname} key={key} {msg[:400]}")
    for e in harness_errors[:6]:
        print(f"HARNESS-ERROR property={pid} {e}")
    if len(harness_errors) > 6:
        print(f"HARNESS-ERROR property={pid} ... and {len(harness_errors) - 6} more")
    write_evidence(pid, tier, seed, results, len(violations), known_hits, time.perf_counter() - t0, level, explanation,
                   harness_errors)
    for hr in results:
        print(
            f"[{pid}] {hr.name}: evaluations={hr.evaluations} nontrivial={hr.nontrivial} exhaustive={hr.exhaustive} "
            f"solver_queries={hr.solver_queries} solver_s={hr.solver_seconds:.1f} wall_s={hr.wall_s:.1f} "
            f"failures={len(hr.failures)}"
        )
    if violations:
        return EXIT_VIOLATION
    if harness_errors:
        return EXIT_HARNESS
    return EXIT_OK


def write_evidence(pid, tier, seed, results: list[HarnessResult], nviol, known_hits, wall, level, explanation, herrors):
    os.makedirs(EVIDENCE_DIR, exist_ok=True)
    samples = []
    for hr in results:
        for s in hr.samples[:2]:
            samples.append({"harness": hr.name, **(s if isinstance(s, dict) else {"case": s})})
    assumptions, outside = [], []
    from vf import repo_env

    for hr in results:
        for a in hr.assumptions:
            if a not in assumptions:
                assumptions.append(a)
        for o in hr.outside:
            if o not in outside:
                outside.append(o)
    for s in repo_env.STUBS_IN_FORCE:
        if s not in assumptions:
            assumptions.append("stub: " + s)
    ev = {
        "property_id": pid,
        "tier": tier,
        "seed": seed,
        "level": level,
        "coverage": {
            "evaluations": sum(hr.evaluations for hr in results),
            "distinct_nontrivial": sum(hr.nontrivial for hr in results),
            "rule": " | ".join(f"{hr.name}: {hr.rule}" for hr in results),
            "samples": samples or [{"note": "no sample recorded"}],
            "exhaustive": all(hr.exhaustive for hr in results) and bool(results),
            "explanation": explanation
            or "solver-decided path exploration of the real functions; see per-harness entries for bounds, queries and solver time",
            "solver_queries": sum(hr.solver_queries for hr in results),
            "solver_seconds": round(sum(hr.solver_seconds for hr in results), 3),
            "harnesses": [
                {
                    "name": hr.name,
                    "engine": hr.engine,
                    "evaluations": hr.evaluations,
                    "distinct_nontrivial": hr.nontrivial,
                    "exhaustive_within_bound": hr.exhaustive,
                    "inconclusive": hr.inconclusive[:20],
                    "bounds": hr.bounds,
                    "functions_encoded": hr.functions,
                    "solver_queries": hr.solver_queries,
                    "solver_seconds": round(hr.solver_seconds, 3),
                    "detail": hr.detail,
                    "failures": [{"key": f["key"], "msg": f["msg"][:300], "reproduced": f["reproduced"]} for f in hr.failures[:10]],
                    "wall_s": round(hr.wall_s, 2),
                }
                for hr in results
            ],
            "outside_the_claim": outside,
            "known_findings_matched": [{"key": k["key"], "what": k["what"]} for k, _ in known_hits],
            "harness_errors": herrors[:10],
        },
        "assumptions": assumptions,
        "wall_s": round(wall, 2),
        "violations": nviol,
    }
    with open(os.path.join(EVIDENCE_DIR, f"{pid}.json"), "w") as fh:
        json.dump(ev, fh, indent=1, default=repr)
