"""C08 / C09 -- shared-memory store: inductive step from an arbitrary valid state, all integer values symbolic.

Real code executed: cascade.shm.dataset.Manager (add, close_callback, get, purge, page_out, page_out_at_least,
page_in and the two job callbacks), cascade.shm.dataset.Dataset.is_pageoutable, cascade.shm.algorithms.lottery,
cascade.shm.disk.Disk._page_out/_page_in/page_out/page_in.
"""

from __future__ import annotations

import itertools

from vf import repo_env
from vf.engine_xh import HarnessError, Violation
from vf.runner import Harness, register

repo_env.setup()
from vf import stubs_shm  # noqa: E402

dataset, disk = stubs_shm.install()
import cascade.shm.algorithms as algorithms  # noqa: E402

DS = dataset.DatasetStatus
STATUSES = [DS.created, DS.in_memory, DS.paging_out, DS.on_disk, DS.paged_in]
RESIDENT = {DS.created, DS.in_memory, DS.paging_out, DS.paged_in}
OPS = ["add", "close", "get", "purge", "wjob", "rjob", "freespace"]


class Ghost:
    """What the harness knows independently of the Manager."""

    def __init__(self):
        self.content: dict[str, list] = {}  # key -> bytes the writer stored
        self.shmid: dict[str, str] = {}
        self.noseg: set[str] = set()  # keys whose writer never created the segment
        self.size: dict[str, object] = {}  # key -> the length the writer asked for (what readers must be told)


def learn_reader_ids(mgr, w):
    """The ids the store itself hands to the 1st, 2nd and 3rd concurrent reader of a dataset (three real `get`s on a scratch
    dataset): pre-states use these, so a reader table is one that a real history (gets, then closes) produces."""
    key, shmid = "scratch", "scratchseg"
    w.segs[shmid] = stubs_shm.Buf(1)
    mgr.datasets[key] = dataset.Dataset(shmid=shmid, size=1, status=DS.in_memory, created=0, ongoing_reads={}, retrieved_first=0, retrieved_last=0,
                                        deser_fun="d", delayed_purge=False)
    ids = []
    try:
        for _ in range(3):
            r = mgr.get(key)
            if r[4] != "" or not r[2]:
                raise HarnessError(f"scratch get refused: {r!r}")
            ids.append(r[2])
    finally:
        del mgr.datasets[key]
        del w.segs[shmid]
    return ids


def build_state(ch, statuses, with_bytes: bool, nreaders=None, stale_files=True, delayed_fixed=None):
    """An arbitrary state satisfying the representation invariant (assumed, not checked, here)."""
    w = stubs_shm.reset_world()
    now = ch.int("now", 1, None)
    w.now = now
    w.boot_offset = ch.int("boot_offset", 0, None)  # wall clock minus monotonic clock
    capacity = ch.int("capacity", 1, None)
    mgr = stubs_shm.make_manager(capacity)
    rd_ids = learn_reader_ids(mgr, w)
    g = Ghost()
    resident = 0
    to_page_out, to_page_in = [], []
    for i, st in enumerate(statuses):
        key = f"k{i}"
        size = ch.int(f"size{i}", 1, None)
        created = ch.int(f"created{i}", 0, None)
        ch.assume(created <= now)
        shmid = f"p{i}seg"
        readers = {}
        if st != DS.created:
            nread = nreaders[i] if nreaders is not None else ch.pick(3, f"readers{i}")
            for r in range(nread):
                start = ch.int(f"rstart{i}_{r}", 1, None)
                ch.assume(start <= now)
                if st != DS.in_memory:
                    # only a reader that was stale when the page-out was decided can still be registered
                    ch.assume(now - start > dataset.STALE_READ)
                # one reader left: the one that came second (the first has closed); two left: the first and the third
                readers[rd_ids[1] if nread == 1 else rd_ids[2 * r]] = start
        rf = ch.int(f"rfirst{i}", 0, None)
        rl = ch.int(f"rlast{i}", 0, None)
        ch.assume((rf == 0 and rl == 0) or (0 < rf and rf <= rl and rl <= now))
        if readers:
            ch.assume(rf > 0)
        if delayed_fixed is not None and str(i) in delayed_fixed:
            delayed = bool(readers) and bool(delayed_fixed[str(i)])
        else:
            delayed = bool(readers) and ch.flag(f"delayed{i}")
        content = [ch.int(f"b{i}{k}", 0, 255) for k in range(3)] if with_bytes else [17 + i, 42 + i, 77 + i]
        if st != DS.created:
            g.content[key] = content
        g.shmid[key] = shmid
        g.size[key] = size
        real_status = st
        if st == DS.paging_out:
            real_status = DS.in_memory
            to_page_out.append(key)
        if st == DS.paged_in:
            real_status = DS.on_disk
            to_page_in.append(key)
        mgr.datasets[key] = dataset.Dataset(
            shmid=shmid, size=size, status=real_status, created=created, ongoing_reads=readers,
            retrieved_first=rf, retrieved_last=rl, deser_fun=f"deser{i}", delayed_purge=delayed,
        )
        if st in RESIDENT:
            resident = resident + size
        # ground truth of segments/files
        if st == DS.created:
            if ch.flag(f"segexists{i}"):
                w.segs[shmid] = stubs_shm.Buf(size, [0, 0, 0])
            else:
                g.noseg.add(key)  # the writer has not created its segment (yet)
        elif st in (DS.in_memory, DS.paging_out):
            w.segs[shmid] = stubs_shm.Buf(size, content)
        if st in (DS.created, DS.in_memory, DS.paging_out) and with_bytes and stale_files and ch.flag(f"stalefile{i}"):
            # page-in never removes the spill file, and a purged key that is written again gets the same shmid:
            # a file with older bytes may be lying around
            w.files[f"/fake/{shmid}"] = stubs_shm.Buf(ch.int(f"oldsize{i}", 1, None), [ch.int(f"old{i}{k}", 0, 255) for k in range(3)])
        elif st in (DS.on_disk, DS.paged_in):
            w.files[f"/fake/{shmid}"] = stubs_shm.Buf(size, content)
    ch.assume(resident <= capacity)
    mgr.free_space = capacity - resident
    # outstanding asynchronous jobs are created by the real page_out / page_in
    if to_page_out:
        mgr.pageout_all.acquire()
        mgr.pageout_count = len(to_page_out)
        for key in to_page_out:
            mgr.page_out(key)
    for key in to_page_in:
        mgr.free_space = mgr.free_space + mgr.datasets[key].size
        mgr.page_in(key)
    return mgr, w, g


def same_content(a, b):
    if len(a) != len(b):
        return False
    for x, y in zip(a, b):
        if not (x == y):
            return False
    return True


def check_invariant(mgr, w, g, strong_lock: bool, where: str):
    resident = 0
    for key, ds in mgr.datasets.items():
        if ds.status in RESIDENT:
            resident = resident + ds.size
    if not (mgr.free_space == mgr.capacity - resident):
        raise Violation("free-space-accounting", f"{where}: free_space != capacity - resident")
    if not (mgr.free_space >= 0):
        raise Violation("over-capacity", f"{where}: resident total exceeds capacity")
    njobs = len(mgr.disk.writers.jobs)
    if mgr.pageout_count != njobs:
        raise Violation("pageout-count", f"{where}: pageout_count={mgr.pageout_count} but {njobs} page-out jobs outstanding")
    if njobs > 0 and not mgr.pageout_all.locked():
        raise Violation("pageout-lock-free-with-jobs", where)
    if strong_lock and njobs == 0 and mgr.pageout_all.locked():
        raise Violation("pageout-lock-leaked", f"{where}: page-out lock held with no page-out outstanding; no eviction can start again")
    tables = {}
    for key, ds in mgr.datasets.items():
        if id(ds.ongoing_reads) in tables:
            raise Violation("datasets-share-one-reader-table", f"{where}: {tables[id(ds.ongoing_reads)]} and {key}: a reader of one makes the other look in use")
        tables[id(ds.ongoing_reads)] = key
    owned = set()
    for key, ds in mgr.datasets.items():
        owned.add(ds.shmid)
        if ds.status in (DS.in_memory, DS.paging_out):
            if ds.shmid not in w.segs:
                if key in g.noseg and ds.status == DS.paging_out:
                    continue  # stale allocation whose writer never showed up: being reclaimed
                raise Violation("segment-missing", f"{where}: {key} is {ds.status.name} but has no segment")
            if key in g.content:
                seg = w.segs[ds.shmid]
                if seg.corrupt or not same_content(seg.data, g.content[key]):
                    raise Violation("bytes-differ", f"{where}: resident bytes of {key} differ from what was written")
        elif ds.status == DS.on_disk:
            if ds.shmid in w.segs:
                raise Violation("segment-leak", f"{where}: {key} is on disk but its segment still exists")
            f = w.files.get(f"/fake/{ds.shmid}")
            if f is None:
                raise Violation("file-missing", f"{where}: {key} on disk without file")
            if key in g.content:
                if f.corrupt or not same_content(f.data, g.content[key]):
                    raise Violation("bytes-differ", f"{where}: on-disk bytes of {key} differ from what was written")
        if ds.status == DS.created and ds.ongoing_reads:
            raise Violation("reader-before-write-finished", f"{where}: {key}")
        if ds.status != DS.in_memory:
            for rd, start in ds.ongoing_reads.items():
                if not (w.now - start > dataset.STALE_READ):
                    raise Violation("fresh-reader-not-in-memory", f"{where}: {key} is {ds.status.name} with a fresh reader")
    for name in w.segs:
        if name not in owned:
            raise Violation("orphan-segment", f"{where}: segment {name} belongs to no dataset")


def install_unlink_monitor(mgr, w):
    def on_unlink(name):
        for key, ds in mgr.datasets.items():
            if ds.shmid == name:
                for rd, start in ds.ongoing_reads.items():
                    if not (w.now - start > dataset.STALE_READ):
                        raise Violation("unlink-under-fresh-reader", f"{key} unlinked while reader {rd} holds it")

    w.on_unlink = on_unlink


def one_step(ch, mgr, w, g, op: str, tag: str, strong_lock: bool, preempt: bool = False):
    """One request or job completion with symbolic arguments; op-specific postconditions."""
    delta = ch.int(f"{tag}dt", 0, None)
    w.now = w.now + delta
    keys = sorted(g.shmid.keys())  # keys ever known, incl. purged ones
    fs0 = mgr.free_space
    if op == "add":
        key = ch.choose(keys + [f"knew{tag}"], f"{tag}key")
        size = ch.int(f"{tag}size", 1, None)
        existed = key in mgr.datasets
        shmid, err = mgr.add(key, size, "dnew")
        if existed:
            if err != "conflict":
                raise Violation("add-existing-not-conflict", err)
            if not (mgr.free_space == fs0):
                raise Violation("add-conflict-changed-space")
        elif size > mgr.capacity:
            if err != "capacity exceeded":
                raise Violation("add-over-capacity-not-refused", f"err={err!r}")
        elif size > fs0:
            if err != "wait":
                raise Violation("add-granted-early", f"size>{'free'} but err={err!r}")
            if not (mgr.free_space == fs0):
                raise Violation("add-wait-changed-space")
        else:
            if err != "":
                raise Violation("add-fits-not-granted", f"err={err!r}")
            if not (mgr.free_space == fs0 - size):
                raise Violation("add-grant-accounting", "free_space did not drop by exactly size")
            if not shmid or any(ds.shmid == shmid for k, ds in mgr.datasets.items() if k != key):
                raise Violation("add-shmid-clash", shmid)
            if not (mgr.datasets[key].size == size):
                raise Violation("reader-told-a-length-the-writer-never-asked-for", f"{key}: the store recorded another length than the one allocated")
            g.shmid[key] = shmid
            g.size[key] = size
            g.content.pop(key, None)
            g.noseg.add(key)  # the writer has been granted the allocation but has not created its segment yet
        ch.note("op", f"add({key})->{err or 'granted'}")
    elif op == "close":
        key = ch.choose(keys + ["knew"], f"{tag}key")
        ds = mgr.datasets.get(key)
        rdids = [""] + (sorted(ds.ongoing_reads.keys()) if ds is not None else []) + ["bogus"]
        rdid = ch.choose(rdids, f"{tag}rdid")
        if rdid == "" and ds is not None and ds.status == DS.created:
            # protocol: the writer created the segment and stored its bytes before closing
            if ds.shmid not in w.segs:
                w.segs[ds.shmid] = stubs_shm.Buf(ds.size, [0, 0, 0])
                g.noseg.discard(key)
            content = [ch.int(f"{tag}w{k}", 0, 255) for k in range(3)]
            w.segs[ds.shmid].data = list(content)
            g.content[key] = content
        was_last = ds is not None and rdid in ds.ongoing_reads and len(ds.ongoing_reads) == 1
        was_delayed = ds is not None and ds.delayed_purge
        st0 = ds.status if ds is not None else None
        size0 = ds.size if ds is not None else 0
        try:
            mgr.close_callback(key, rdid)
            err = ""
        except Exception as e:  # the server answers with an error response
            err = type(e).__name__
        if err == "" and was_last and was_delayed and st0 == DS.in_memory:
            if key in mgr.datasets:
                raise Violation("delayed-purge-not-applied", f"{key} still present after its last reader closed")
            if not (mgr.free_space == fs0 + size0):
                raise Violation("delayed-purge-accounting")
        ch.note("op", f"close({key},{rdid!r})->{err or 'ok'}")
    elif op == "get":
        key = ch.choose(keys + ["knew"], f"{tag}key")
        ds = mgr.datasets.get(key)
        st0 = ds.status if ds is not None else None
        nrd0 = len(ds.ongoing_reads) if ds is not None else 0
        try:
            shmid, l, rdid, deser_fun, err = mgr.get(key)
        except Exception as e:
            err = type(e).__name__
            shmid = ""
        if st0 == DS.in_memory and err != "":
            raise Violation("get-refused-for-readable-dataset", f"{key}: {err}")
        if err == "":
            if st0 != DS.in_memory:
                raise Violation("get-granted-not-in-memory", f"status was {st0}")
            if shmid != ds.shmid or not (l == ds.size) or deser_fun != ds.deser_fun:
                raise Violation("get-wrong-metadata")
            if not (l == g.size[key]):
                raise Violation("reader-told-a-length-the-writer-never-asked-for", f"{key}: the length handed to the reader differs from the length of the allocation")
            seg = w.segs.get(shmid)
            if seg is None:
                raise Violation("get-granted-no-segment")
            if seg.corrupt or not same_content(seg.data, g.content[key]):
                raise Violation("bytes-differ", "get granted with bytes different from what was written")
            if rdid not in ds.ongoing_reads:
                raise Violation("get-reader-not-registered")
            if len(ds.ongoing_reads) != nrd0 + 1:
                raise Violation("new-reader-took-the-slot-of-a-reader-still-open", f"{key}: {nrd0} readers before the get, {len(ds.ongoing_reads)} after")
            if ds.is_pageoutable(w.now):
                raise Violation("dataset-just-handed-to-a-reader-is-evictable", f"{key}: a reader got it this instant, yet it counts as page-out-able")
        ch.note("op", f"get({key})->{err or 'granted'}")
    elif op == "purge":
        key = ch.choose(keys + ["knew"], f"{tag}key")
        ds = mgr.datasets.get(key)
        had_readers = ds is not None and bool(ds.ongoing_reads)
        st0 = ds.status if ds is not None else None
        size0 = ds.size if ds is not None else 0
        try:
            mgr.purge(key)
            err = ""
        except Exception as e:
            err = type(e).__name__
        if ds is not None and had_readers:
            if key not in mgr.datasets or not mgr.datasets[key].delayed_purge:
                raise Violation("purge-during-read-not-delayed", key)
            if not (mgr.free_space == fs0):
                raise Violation("purge-during-read-freed-space")
        elif ds is not None and st0 == DS.in_memory:
            if key in mgr.datasets:
                raise Violation("purge-idle-not-removed", key)
            if not (mgr.free_space == fs0 + size0):
                raise Violation("purge-accounting")
        ch.note("op", f"purge({key})->{err or 'ok'}")
    elif op in ("wjob", "rjob"):
        pool = mgr.disk.writers if op == "wjob" else mgr.disk.readers
        ch.assume(len(pool.jobs) > 0)
        j = ch.pick(len(pool.jobs), f"{tag}job")
        fail = ch.flag(f"{tag}fail")
        shmid = pool.jobs[j][1][0]
        if fail:
            w.fail_file_io.add(f"/fake/{shmid}")
        # the server thread may serve one request between two shared-memory / file operations of the job (thread interleaving
        # at the granularity of those operations): a purge of any key, at a solver-chosen point
        jobkey = next((k for k, d in mgr.datasets.items() if d.shmid == shmid), None)
        if preempt and ch.flag(f"{tag}preempt"):
            at = ch.pick(3, f"{tag}preempt_at")
            victim = ch.choose(keys, f"{tag}preempt_key")
            seen = {"n": 0, "done": False}

            def hook(point):
                if seen["done"]:
                    return
                if seen["n"] == at:
                    seen["done"] = True
                    w.preempt = None
                    try:
                        mgr.purge(victim)
                    finally:
                        w.preempt = hook
                seen["n"] += 1

            w.preempt = hook
        try:
            pool.run(j)
        except Exception as e:
            raise Violation("disk-job-raised", f"{type(e).__name__}: {e}")
        finally:
            w.preempt = None
            w.fail_file_io.discard(f"/fake/{shmid}")
        ch.note("op", f"{op}({shmid},{'fail' if fail else 'ok'})")
    elif op == "freespace":
        # through the real dispatch of the server: what it reports is capacity minus what is resident
        import cascade.shm.api as api
        import cascade.shm.server as server

        srv = server.LocalServer.__new__(server.LocalServer)
        srv.manager = mgr
        inbox = [api.FreeSpaceRequest(), api.ShutdownCommand()]
        answers = []
        srv.receive = lambda: (inbox.pop(0), "client")
        srv.respond = lambda comm, address: answers.append(comm)  # captured before encoding (encoding: C17)
        try:
            srv.start()
        except Exception as e:
            raise Violation("shm-server-loop-died", f"{type(e).__name__}: {e}")
        if len(answers) != 2 or not isinstance(answers[0], api.FreeSpaceResponse):
            raise Violation("request-without-answer", repr(answers)[:100])
        resident = 0
        for k_, d_ in mgr.datasets.items():
            if d_.status in RESIDENT:
                resident = resident + d_.size
        if not (answers[0].free_space == mgr.capacity - resident):
            raise Violation("reported-free-space-wrong", "the free space the server reports differs from capacity minus the resident total")
        ch.note("op", "free-space request")
    else:
        raise HarnessError(op)
    check_invariant(mgr, w, g, strong_lock, f"after {op}")


class ShmStep(Harness):
    engine = "E1-crosshair"
    rule = ("one path = one (pre-state shape, operation, argument class) decided by the solver; non-trivial = the state "
            "holds >=1 dataset; all sizes/capacity/clock values on a path are covered symbolically")
    assumptions = [
        "representation invariant I assumed of the pre-state (see build_state/check_invariant); I is re-established after the step",
        "client protocol: close_callback(key,'') in status created is only sent after the writer created the segment",
        "disk job failure = the file open raising OSError",
    ]
    outside = [
        "byte-code-level races between the server thread and the disk threads (jobs are atomic here)",
        "more datasets in one state than the bound",
        "datasets longer than three chunks; partial trailing chunks",
    ]

    def __init__(self, name, properties, with_bytes, strong_lock, n_quick, n_thorough, steps_thorough=1, preempt=False):
        self.preempt = preempt
        self.name, self.properties = name, properties
        self.with_bytes, self.strong_lock = with_bytes, strong_lock
        self.n_quick, self.n_thorough, self.steps_thorough = n_quick, n_thorough, steps_thorough

    def shards(self, tier):
        n = self.n_quick if tier == "quick" else self.n_thorough
        out = []
        for k in range(n + 1):
            for sts in itertools.product(range(5), repeat=k):
                # datasets are interchangeable: keep status tuples sorted
                if list(sts) != sorted(sts):
                    continue
                for op in (OPS if not self.preempt else ["wjob", "rjob"]):
                    if op == "wjob" and 2 not in sts:
                        continue
                    if op == "rjob" and 4 not in sts:
                        continue
                    out.append({"statuses": list(sts), "ops": [op]})
        if not self.preempt:
            # two allocations in a row: what one creates must not be shared with what the next one creates
            out.append({"statuses": [], "ops": ["add", "add"]})
            out.append({"statuses": [1], "ops": ["add", "add"]})
        if tier == "thorough" and self.steps_thorough > 1:
            for k in range(0, min(n, 2) + 1):
                for sts in itertools.product(range(5), repeat=k):
                    if list(sts) != sorted(sts):
                        continue
                    for ops in itertools.product(OPS, repeat=2):
                        out.append({"statuses": list(sts), "ops": list(ops)})
        return out

    def budget(self, tier):
        return 120.0 if tier == "quick" else 900.0

    def bounds(self, tier):
        return {
            "datasets_in_pre_state": self.n_quick if tier == "quick" else self.n_thorough,
            "steps": 1 if tier == "quick" else self.steps_thorough,
            "readers_per_dataset": "0..2",
            "integers": "unbounded (capacity, sizes, clock, reader start times are z3 Int)",
            "content": "three 4096-byte chunks per dataset, one symbolic token each" if self.with_bytes else "concrete",
        }

    def functions(self):
        return [dataset.Manager, dataset.Dataset, algorithms.lottery, disk.Disk]

    def body(self, ch, params):
        statuses = [STATUSES[i] for i in params["statuses"]]
        # left-over spill files only matter to the operations that touch files or re-create a key
        stale = any(op in ("wjob", "close", "purge") for op in params["ops"])
        mgr, w, g = build_state(ch, statuses, self.with_bytes, stale_files=stale)
        install_unlink_monitor(mgr, w)
        for i, op in enumerate(params["ops"]):
            one_step(ch, mgr, w, g, op, f"s{i}", self.strong_lock, self.preempt)
        ch.note("nontrivial", len(statuses) > 0)
        ch.note("fingerprint", (tuple(params["statuses"]), tuple(params["ops"]), tuple((k, l, v) for k, l, v in ch.log if k == "pick")))


class ShmLiveness(Harness):
    """C09 bounded liveness: a request that idle datasets can make room for is granted within R retries."""

    name = "shm-evict-liveness"
    properties = ("C09", "C08")
    engine = "E1-crosshair"
    rule = "one path = pre-state shape x reader-close subset x lottery outcome; non-trivial = eviction was needed"
    assumptions = [
        "pre-state satisfies I and has no disk job outstanding",
        "fairness: between retries every pending disk job completes successfully; a solver-chosen subset of readers closes before the first retry, every remaining fresh reader is closed before the second",
    ]
    outside = ["failed disk jobs during the liveness part (they may legitimately lose the dataset)"]
    RETRIES = 5

    def shards(self, tier):
        n = 2 if tier == "quick" else 3
        out = []
        for k in range(1, n + 1):
            for sts in itertools.product([1, 3], repeat=k):  # in_memory / on_disk
                if list(sts) != sorted(sts):
                    continue
                for rds in itertools.product(range(3), repeat=k):
                    base = {"statuses": list(sts), "readers": list(rds)}
                    if sum(rds) >= 3:
                        # case split on the delayed-purge flags of the datasets that have readers
                        idx = [i for i, r in enumerate(rds) if r]
                        for flags in itertools.product([0, 1], repeat=len(idx)):
                            b2 = {**base, "delayed": {str(i): f for i, f in zip(idx, flags)}}
                            if sum(rds) >= 4 and not any(flags):
                                # the largest tree: also case-split on the first reader-close decisions
                                out += [{**b2, "close0": c} for c in itertools.product([0, 1], repeat=2)]
                            else:
                                out.append(b2)
                    else:
                        out.append(base)
        return out

    def budget(self, tier):
        return 150.0 if tier == "quick" else 900.0

    def bounds(self, tier):
        return {"datasets": 2 if tier == "quick" else 3, "retries": self.RETRIES, "integers": "unbounded"}

    def functions(self):
        # only what this harness drives must exist: add, close_callback and the disk jobs; the rest is listed when present
        return [dataset.Manager.add, dataset.Manager.close_callback, dataset.Dataset.is_pageoutable, algorithms.lottery, disk.Disk._page_out] + [
            getattr(dataset.Manager, n) for n in ("page_out_at_least", "page_out") if hasattr(dataset.Manager, n)]

    def body(self, ch, params):
        statuses = [STATUSES[i] for i in params["statuses"]]
        mgr, w, g = build_state(ch, statuses, False, params.get("readers"), delayed_fixed=params.get("delayed"))
        install_unlink_monitor(mgr, w)
        size = ch.int("req", 1, None)
        ch.assume(size <= mgr.capacity)
        # everything currently in memory is evictable once its readers have closed
        evictable = 0
        for key, ds in mgr.datasets.items():
            if ds.status == DS.in_memory and not ds.delayed_purge:
                evictable = evictable + ds.size
        ch.assume(size <= mgr.free_space + evictable)
        needed_eviction = bool(size > mgr.free_space)
        granted = False
        nclose = 0
        for attempt in range(self.RETRIES):
            shmid, err = mgr.add("knew", size, "d")
            if err == "":
                granted = True
                break
            if err != "wait":
                raise Violation("liveness-unexpected-answer", err)
            # all pending disk jobs complete successfully
            while mgr.disk.writers.jobs:
                mgr.disk.writers.run(0)
            # readers close: a solver-chosen subset first, everybody afterwards
            for key in sorted(mgr.datasets.keys()):
                ds = mgr.datasets.get(key)
                if ds is None or ds.status != DS.in_memory:
                    continue
                for rd in sorted(ds.ongoing_reads.keys()):
                    forced = None
                    if attempt == 0 and params.get("close0") is not None and nclose < len(params["close0"]):
                        forced = bool(params["close0"][nclose])
                    nclose += 1
                    if attempt >= 1 or (forced if forced is not None else ch.flag(f"close_{key}_{rd}_{attempt}")):
                        if key in mgr.datasets:
                            mgr.close_callback(key, rd)
            w.now = w.now + ch.int(f"dt{attempt}", 0, None)
        if not granted:
            raise Violation("wait-forever", f"request that fits after eviction still answered 'wait' after {self.RETRIES} retries")
        check_invariant(mgr, w, g, True, "after liveness")
        ch.note("nontrivial", needed_eviction)


class ShmAtExit(Harness):
    """C05 (Python level): Manager.atexit from an arbitrary valid state leaves no shared-memory segment behind."""

    name = "shm-atexit"
    properties = ("C05",)
    engine = "E1-crosshair"
    rule = "one path = pre-state shape (statuses, readers, delayed purges, which writers created their segment); non-trivial = some segment exists before exit"
    assumptions = ["pre-state satisfies the representation invariant; pending disk jobs never run after exit"]
    outside = ["segments of clients that died between allocate and creating the segment cannot exist; real /dev/shm"]

    def shards(self, tier):
        n = 2 if tier == "quick" else 3
        return [{"statuses": list(sts)} for k in range(0, n + 1) for sts in itertools.product(range(5), repeat=k) if list(sts) == sorted(sts)]

    def budget(self, tier):
        return 60.0

    def bounds(self, tier):
        return {"datasets": 2 if tier == "quick" else 3, "integers": "unbounded"}

    def functions(self):
        return [dataset.Manager.atexit, dataset.Manager.purge]

    def body(self, ch, params):
        statuses = [STATUSES[i] for i in params["statuses"]]
        mgr, w, g = build_state(ch, statuses, False)
        mgr.disk.atexit = lambda: None
        had = len(w.segs)
        try:
            mgr.atexit()
        except Exception as e:
            raise Violation("atexit-raised", f"{type(e).__name__}: {e}")
        ch.note("nontrivial", had > 0)
        if w.segs:
            raise Violation("segment-left-behind-at-exit", f"{sorted(w.segs)} still registered after Manager.atexit")


register(ShmAtExit())
register(ShmStep("shm-step-preempt", ("C08",), with_bytes=False, strong_lock=False, n_quick=2, n_thorough=2, preempt=True))
register(ShmStep("shm-step", ("C08",), with_bytes=False, strong_lock=False, n_quick=2, n_thorough=3, steps_thorough=2))
register(ShmStep("shm-step-bytes", ("C09",), with_bytes=True, strong_lock=True, n_quick=2, n_thorough=3, steps_thorough=1))
register(ShmLiveness())


class ShmServer(Harness):
    """C08 end to end: requests encoded with the real api.ser go through the real LocalServer.start dispatch; the answers
    (decoded with the real api.deser) must agree with capacity accounting, including sizes and free space beyond 2^32."""

    name = "shm-server-dispatch"
    properties = ("C08",)
    engine = "E1-crosshair"
    rule = "one path = (capacity, a sequence of <=3 client requests with sizes from a boundary palette); non-trivial = >=2 requests"
    assumptions = ["UDP socket replaced by an in-memory request list; sizes are palette picks (2^32-scale values included); no disk job completes during the sequence"]
    outside = ["datagram loss, concurrent clients"]
    SIZES = [1, 8, 2**32, 2**32 + 8]

    def shards(self, tier):
        return [{"cap": c, "len": n} for c in (8, 2**32 + 16) for n in (1, 2, 3)]

    def budget(self, tier):
        return 60.0

    def bounds(self, tier):
        return {"requests": "1..3", "capacity": [8, 2**32 + 16], "sizes": self.SIZES}

    def functions(self):
        import cascade.shm.server as server

        return [server.LocalServer.start, server.LocalServer.receive, server.LocalServer.respond]

    def body(self, ch, params):
        import cascade.shm.api as api
        import cascade.shm.server as server

        with ch.untraced():
            w = stubs_shm.reset_world()
            w.now = 10**15
            mgr = stubs_shm.make_manager(params["cap"])
            srv = server.LocalServer.__new__(server.LocalServer)
            srv.manager = mgr
            inbox, outbox = [], []

            class Sock:
                def recvfrom(self, n):
                    return inbox.pop(0), "client"

                def sendto(self, b, addr):
                    outbox.append(b)

                def close(self):
                    pass

            srv.sock = Sock()
            reqs = []
            for i in range(params["len"]):
                kind = ch.pick(6, f"req{i}")  # allocate k0, allocate k1, close k0 (writer), get k0, free-space, status of k0
                if kind in (0, 1):
                    reqs.append(api.AllocateRequest(key=f"k{kind}", l=ch.choose(self.SIZES, f"size{i}"), deser_fun="d"))
                elif kind == 2:
                    reqs.append(api.CloseCallback(key="k0", rdid=""))
                elif kind == 3:
                    reqs.append(api.GetRequest(key="k0"))
                elif kind == 5:
                    reqs.append(api.DatasetStatusRequest(key="k0"))
                else:
                    reqs.append(api.FreeSpaceRequest())
            reqs.append(api.FreeSpaceRequest())
            for r in reqs:
                inbox.append(api.ser(r))
            inbox.append(api.ser(api.ShutdownCommand()))
            try:
                srv.start()
            except Exception as e:
                raise Violation("shm-server-loop-died", f"{type(e).__name__}: {e} while answering {reqs}")
            answers = [api.deser(b) for b in outbox]
            ch.note("requests", [repr(r)[:60] for r in reqs])
            ch.note("nontrivial", len(reqs) >= 3)
            if len(answers) != len(reqs) + 1:
                raise Violation("request-without-answer", f"{len(answers)} answers for {len(reqs) + 1} requests")
            # reference accounting
            cap, free, sizes, status = params["cap"], params["cap"], {}, {}
            for r, a in zip(reqs, answers):
                if isinstance(r, api.AllocateRequest):
                    if r.key in sizes:
                        want = "conflict"
                    elif r.l > cap:
                        want = "capacity exceeded"
                    elif r.l > free:
                        want = "wait"
                    else:
                        want = ""
                        free -= r.l
                        sizes[r.key] = r.l
                        status[r.key] = "created"
                        w.segs[mgr.datasets[r.key].shmid] = stubs_shm.Buf(r.l)  # the client creates its segment
                    if not isinstance(a, api.AllocateResponse) or a.error != want or bool(a.shmid) != (want == ""):
                        raise Violation("allocate-answer-wrong", f"{r!r} -> {a!r}, expected error {want!r} (free {free}, capacity {cap})")
                elif isinstance(r, api.CloseCallback):
                    if status.get(r.key) == "created":
                        status[r.key] = "in_memory"
                        if not isinstance(a, api.OkResponse) or a.error:
                            raise Violation("close-answer-wrong", repr(a))
                    elif not isinstance(a, api.OkResponse) or not a.error:
                        raise Violation("invalid-close-not-refused", repr(a))
                elif isinstance(r, api.GetRequest):
                    if status.get(r.key) == "in_memory":
                        if not isinstance(a, api.GetResponse) or a.error or a.l != sizes[r.key] or a.deser_fun != "d":
                            raise Violation("get-answer-wrong", f"{a!r} for size {sizes[r.key]}")
                    elif status.get(r.key) == "created":
                        if not isinstance(a, api.GetResponse) or a.error != "wait":
                            raise Violation("get-before-write-finished-not-wait", repr(a))
                    elif not getattr(a, "error", ""):
                        raise Violation("get-unknown-key-no-error", repr(a))
                elif isinstance(r, api.DatasetStatusRequest):
                    ready = status.get(r.key) == "in_memory"
                    if not isinstance(a, api.DatasetStatusResponse) or (a.status == api.DatasetStatus.ready) != ready:
                        raise Violation("status-answer-wrong", f"{a!r} for a dataset that is {status.get(r.key, 'unknown')}")
                elif isinstance(r, api.FreeSpaceRequest):
                    if not isinstance(a, api.FreeSpaceResponse) or a.free_space != free:
                        raise Violation("reported-free-space-wrong", f"{a!r}, capacity {cap} minus resident {cap - free} is {free}")


register(ShmServer())


class ShmInit(Harness):
    """C08: the real Manager.__init__ with symbolic configured and available capacity: free space starts equal to the
    (trimmed) capacity."""

    name = "shm-init"
    properties = ("C08",)
    engine = "E1-crosshair"
    rule = "one path = ordering class of (configured capacity or none, capacity available in /dev/shm); non-trivial = a capacity was configured"
    assumptions = ["get_capacity() returns an arbitrary positive integer; Disk() is inert"]
    outside = []

    def shards(self, tier):
        return [{"configured": c} for c in (0, 1)]

    def budget(self, tier):
        return 30.0

    def bounds(self, tier):
        return {"capacities": "unbounded symbolic integers"}

    def functions(self):
        return [dataset.Manager.__init__]

    def body(self, ch, params):
        avail = ch.int("available", 1, None)
        conf = ch.int("configured", 1, None) if params["configured"] else None
        old_gc, old_disk = dataset.get_capacity, dataset.disk.Disk
        inert_disk = stubs_shm.make_manager(1).disk
        dataset.get_capacity = lambda: avail
        dataset.disk.Disk = lambda: inert_disk
        try:
            m = dataset.Manager("p", conf)
        finally:
            dataset.get_capacity, dataset.disk.Disk = old_gc, old_disk
        want = avail
        if conf is not None and conf <= avail:
            want = conf
        ch.note("nontrivial", conf is not None)
        ch.note("fingerprint", ("conf", conf is not None, "trim", bool(conf is not None and conf > avail)))
        if not (m.capacity == want):
            raise Violation("capacity-not-trimmed-to-available", "capacity exceeds what /dev/shm offers")
        if not (m.free_space == m.capacity):
            raise Violation("initial-free-space-differs-from-capacity", "a fresh store reports free space different from its capacity")


register(ShmInit())
