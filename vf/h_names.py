"""C14 -- fluent node names identify computations; operations leave their operands intact."""

from __future__ import annotations

import functools
import itertools

import numpy as np

from vf import repo_env
from vf.engine_xh import Violation
from vf.runner import Harness, register

repo_env.setup()
import xarray as xr  # noqa: E402
import earthkit.workflows as ew  # noqa: E402
import earthkit.workflows.fluent as fluent  # noqa: E402
import cascade.low.into as into  # noqa: E402
from earthkit.workflows.graph import Graph  # noqa: E402


def f(*a, **k):
    return ("f", a, k)


def g(*a, **k):
    return ("g", a, k)


lam1 = lambda *a, **k: ("lam1", a, k)  # noqa: E731
lam2 = lambda *a, **k: ("lam2", a, k)  # noqa: E731


def _mk_h(tag):
    def h(*a, **k):
        return (tag, a, k)

    return h


h1, h2 = _mk_h("h1"), _mk_h("h2")  # two distinct callables sharing __name__ and __qualname__


def s0():
    return 0


def s1():
    return 1


from earthkit.workflows import backends as _backends  # noqa: E402

# two backend functions that are not defined on Backend: the module creates their dispatchers on first use
CALLABLES = [("f", f), ("g", g), ("lam1", lam1), ("lam2", lam2), ("h1", h1), ("h2", h2), ("partial(f,1)", functools.partial(f, 1)), ("partial(f,2)", functools.partial(f, 2)),
             ("backends.norm", _backends.norm), ("backends.diff", _backends.diff)]
ARGS = [1, "1", 1.0, True, "a", None, "1, 2", (1, 2), [1, 2], -1]


def computation(ci, args, kwargs, inputs):
    """Harness-side identity of what a node computes (type-sensitive): (callable, args, kwargs, inputs).
    A functools.partial is the function with its leading arguments, exactly as Payload documents."""
    fn = CALLABLES[ci][1]
    if isinstance(fn, functools.partial):
        args = list(fn.args) + list(args)
        kwargs = {**(fn.keywords or {}), **kwargs}
        fn = fn.func
    return (id(fn), tuple((type(a).__name__, repr(a)) for a in args), tuple(sorted((k, type(v).__name__, repr(v)) for k, v in kwargs.items())), tuple(inputs))


def same_under_eq(ci1, d1, ci2, d2):
    """Python-equality notion used by de-duplication (1 == 1.0 == True)."""
    def norm(ci, d):
        fn = CALLABLES[ci][1]
        args, kwargs, inputs = d
        if isinstance(fn, functools.partial):
            return fn.func, list(fn.args) + list(args), {**(fn.keywords or {}), **kwargs}, list(inputs)
        return fn, list(args), dict(kwargs), list(inputs)

    a, b = norm(ci1, d1), norm(ci2, d2)
    return a[0] is b[0] and a[1] == b[1] and a[2] == b[2] and a[3] == b[3]


class Names(Harness):
    name = "fluent-names"
    engine = "E1-crosshair"
    properties = ("C14",)
    rule = "one path = a pair of node descriptions (callable, static args, kwargs, inputs); non-trivial = the two descriptions differ"
    assumptions = ["SHA-256 (custom_hash) is collision free", "static arguments come from a palette of builtin values whose repr is faithful"]
    outside = ["static arguments whose str() is lossy (large numpy arrays, objects with default repr)"]

    def shards(self, tier):
        n = len(CALLABLES)
        if tier == "quick":
            # different callables: same description (names must differ); same callable: one aspect varied
            from vf.engine_xh import split_prefixes

            out = []
            for a in range(n):
                for b in range(a, n):
                    base = {"c1": a, "c2": b, "maxargs": 1, "npalette": 5, "aspects": 5 if a == b else 1}
                    out += [{**base, "_prefix": p} for p in split_prefixes(self.body, base, 6)] if a == b else [base]
            return out
        return ([{"c1": a, "c2": b, "maxargs": 2, "npalette": len(ARGS)} for a in range(n) for b in range(a, n)]
                + [{"c1": a, "c2": b, "maxargs": 1, "npalette": 6, "independent": True} for a in range(n) for b in range(a, n)])

    def budget(self, tier):
        return 60.0 if tier == "quick" else 600.0

    def bounds(self, tier):
        return {"nodes_compared": 2, "static_args": "0..1" if tier == "quick" else "0..2", "kwargs": "0..1", "inputs": "0..2 of 2 sources (order matters)",
                "callables": [n for n, _ in CALLABLES], "arg_palette": [repr(a) for a in (ARGS[:5] if tier == "quick" else ARGS)],
                "second_node": "the first description with one aspect changed (thorough also: independent descriptions)"}

    def functions(self):
        return [fluent.Node.__init__, fluent.Payload, fluent.custom_hash, ew.Cascade.from_actions, into.graph2job]

    INPUTS = [[], [0], [1], [0, 1], [1, 0], [0, 0]]
    _aspects = 5

    def describe(self, ch, tag, ci, maxargs, palette):
        is_partial = isinstance(CALLABLES[ci][1], functools.partial)
        nargs = 0 if is_partial else ch.pick(maxargs + 1, f"{tag}nargs")
        args = [ch.choose(palette, f"{tag}arg{i}") for i in range(nargs)]
        kwargs = {}
        if not is_partial and ch.flag(f"{tag}kw"):
            kwargs = {"k": ch.choose(palette[:3], f"{tag}kwval")}
        inputs = list(ch.choose(self.INPUTS, f"{tag}inputs"))
        return args, kwargs, inputs

    def vary(self, ch, d1, ci2, maxargs, palette):
        """The second description: the first one with one aspect changed (or nothing changed)."""
        args, kwargs, inputs = list(d1[0]), dict(d1[1]), list(d1[2])
        is_partial = isinstance(CALLABLES[ci2][1], functools.partial)
        aspect = ch.pick(self._aspects, "aspect")  # 0 same, 1 one arg, 2 arg count, 3 kwargs, 4 inputs
        if aspect == 1 and args:
            args[ch.pick(len(args), "whicharg")] = ch.choose(palette, "newarg")
        elif aspect == 2:
            args = args[:-1] if args and ch.flag("drop") else args + [ch.choose(palette, "extraarg")]
        elif aspect == 3:
            kwargs = {} if kwargs and ch.flag("dropkw") else {ch.choose(["k", "kk"], "kwname"): ch.choose(palette[:3], "newkwval")}
        elif aspect == 4:
            inputs = list(ch.choose(self.INPUTS, "newinputs"))
        if is_partial:
            args, kwargs = [], {}
        return args, kwargs, inputs

    def body(self, ch, params):
        with ch.untraced():
            srcs = [fluent.Node(fluent.Payload(s0), name="s0"), fluent.Node(fluent.Payload(s1), name="s1")]
            palette = ARGS[: params["npalette"]]
            self._aspects = params.get("aspects", 5)
            d1 = self.describe(ch, "a", params["c1"], params["maxargs"], palette)
            if params.get("independent"):
                d2 = self.describe(ch, "b", params["c2"], params["maxargs"], palette)
            else:
                d2 = self.vary(ch, d1, params["c2"], params["maxargs"], palette)

            def build(ci, d):
                fn = CALLABLES[ci][1]
                args, kwargs, inputs = d
                pay = fluent.Payload(fn) if isinstance(fn, functools.partial) else fluent.Payload(fn, list(args), dict(kwargs))
                return fluent.Node(pay, [srcs[i] for i in inputs])

            try:
                n1, n2 = build(params["c1"], d1), build(params["c2"], d2)
                n1b = build(params["c1"], d1)
            except Exception as e:
                raise Violation(f"node-construction-raised-{type(e).__name__}", str(e)[:200])
            # one Payload object used for two nodes with different inputs must not leak between them
            fn1 = CALLABLES[params["c1"]][1]
            if not isinstance(fn1, functools.partial):
                shared = fluent.Payload(fn1, list(d1[0]), dict(d1[1]))
                before = (list(shared.args), dict(shared.kwargs))
                first = fluent.Node(shared, [srcs[i] for i in d1[2]])
                first_payload = (list(first.payload[1]), dict(first.payload[2]))
                # the caller goes on using its Payload object (changes a static argument in place for the next program)
                shared.args.append("changed-later")
                shared.kwargs["changed-later"] = 1
                if (list(first.payload[1]), dict(first.payload[2])) != first_payload:
                    raise Violation("existing-node-follows-later-changes-of-the-callers-payload", f"{first_payload} -> {first.payload[1:]}: the node keeps its name but computes something else")
                shared.args.pop()
                del shared.kwargs["changed-later"]
                second = fluent.Node(shared, [srcs[i] for i in d2[2]])
                fresh_second = fluent.Node(fluent.Payload(fn1, list(d1[0]), dict(d1[1])), [srcs[i] for i in d2[2]])
                if (list(shared.args), dict(shared.kwargs)) != before:
                    raise Violation("node-construction-mutated-the-callers-payload", f"{before} -> {(shared.args, shared.kwargs)}")
                if (list(first.payload[1]), dict(first.payload[2])) != first_payload:
                    raise Violation("later-node-rewrote-arguments-of-earlier-node", f"{first_payload} -> {first.payload[1:]}")
                if second.name != fresh_second.name or list(second.payload[1]) != list(fresh_second.payload[1]):
                    raise Violation("shared-payload-changes-the-node", f"{second.payload[1]} vs {fresh_second.payload[1]}")
            comp1, comp2 = computation(params["c1"], *d1), computation(params["c2"], *d2)
            ch.note("nontrivial", comp1 != comp2)
            ch.note("pair", {"a": [CALLABLES[params["c1"]][0], repr(d1)], "b": [CALLABLES[params["c2"]][0], repr(d2)]})
            if n1.name != n1b.name:
                raise Violation("same-program-different-names", f"{n1.name} vs {n1b.name}")
            if n1.name == n2.name and comp1 != comp2:
                if comp1[0] != comp2[0] and comp1[1:] == comp2[1:]:
                    fn1, fn2 = CALLABLES[params["c1"]][1], CALLABLES[params["c2"]][1]
                    n_1, n_2 = getattr(fn1, "__name__", ""), getattr(fn2, "__name__", "")
                    pair = f"{CALLABLES[params['c1']][0]}/{CALLABLES[params['c2']][0]}"
                    if n_1 == n_2 == "<lambda>":
                        raise Violation(f"distinct-lambdas-same-node-name:{pair}", f"{pair} with {d1!r}")
                    if n_1 == n_2:
                        raise Violation(f"distinct-callables-equal-__name__-same-node-name:{pair}", f"{pair} with {d1!r}")
                raise Violation("different-computations-same-node-name", f"{CALLABLES[params['c1']][0]}{d1!r} / {CALLABLES[params['c2']][0]}{d2!r} -> {n1.name}")
            # union of actions: one node per distinct computation, lowering by name unambiguous
            a1 = fluent.Action(xr.DataArray(np.array([n1], dtype=object), dims=["d"]))
            a2 = fluent.Action(xr.DataArray(np.array([n2], dtype=object), dims=["d"]))
            pay_before = [(list(n.payload[1]), dict(n.payload[2])) for n in (n1, n2)]
            try:
                casc = ew.Cascade.from_actions([a1, a2])
                nodes = list(casc._graph.nodes())
                job = into.graph2job(casc._graph)
            except Exception as e:
                if n1.name == n2.name and comp1 != comp2:
                    return
                raise Violation(f"union-or-lowering-raised-{type(e).__name__}", str(e)[:200])
            used = {i for d in (d1, d2) for i in d[2]}
            want = len(used) + (1 if same_under_eq(params["c1"], d1, params["c2"], d2) else 2)
            if len(nodes) != want or len({n.name for n in nodes}) != len(nodes):
                raise Violation("union-not-deduplicated", f"{len(nodes)} nodes for {want} distinct computations")
            if len(job.tasks) != len(nodes):
                raise Violation("lowering-by-name-ambiguous", f"{len(job.tasks)} tasks for {len(nodes)} nodes")
            if [(list(n.payload[1]), dict(n.payload[2])) for n in (n1, n2)] != pay_before:
                raise Violation("lowering-rewrote-node-payloads", f"{pay_before} -> {[n.payload[1:] for n in (n1, n2)]}")
            # one action that holds the same computation twice (two node objects, as a join of two sub-expressions built separately does)
            try:
                single = ew.Cascade.from_actions([fluent.Action(xr.DataArray(np.array([n1, n1b, n2], dtype=object), dims=["d"]))])
                snodes = list(single._graph.nodes())
            except Exception as e:
                raise Violation(f"single-action-union-raised-{type(e).__name__}", str(e)[:200])
            if len({n.name for n in snodes}) != len(snodes) or len(snodes) != want:
                raise Violation("single-action-not-deduplicated", f"{len(snodes)} nodes, {len({n.name for n in snodes})} names, expected {want}")
            # in-place union with a separately built copy of the second program (equal names, distinct node objects)
            srcs2 = [fluent.Node(fluent.Payload(s0), name="s0"), fluent.Node(fluent.Payload(s1), name="s1")]
            fn2 = CALLABLES[params["c2"]][1]
            pay2 = fluent.Payload(fn2) if isinstance(fn2, functools.partial) else fluent.Payload(fn2, list(d2[0]), dict(d2[1]))
            n2copy = fluent.Node(pay2, [srcs2[i] for i in d2[2]])
            acc = ew.Cascade.from_actions([a1, a2])
            try:
                acc += ew.Cascade.from_actions([fluent.Action(xr.DataArray(np.array([n2copy], dtype=object), dims=["d"]))])
                accn = list(acc._graph.nodes())
            except Exception as e:
                raise Violation(f"in-place-union-raised-{type(e).__name__}", str(e)[:200])
            if len({n.name for n in accn}) != len(accn) or len(accn) != want:
                raise Violation("in-place-union-not-deduplicated", f"{len(accn)} nodes, {len({n.name for n in accn})} names, expected {want}")


def snapshot(action):
    n = action.nodes
    return (tuple(n.dims), tuple(n.shape), {str(k): [x.item() if hasattr(x, "item") else x for x in np.atleast_1d(v.data)] for k, v in n.coords.items()},
            [id(x) for x in n.data.flatten()], dict(n.attrs))


def src_action(tag, shape, dims, offset=0):
    pay = np.empty(shape, dtype=object)
    for idx in np.ndindex(*shape):
        def fn(i=idx):
            return i
        fn.__name__ = f"src_{tag}{''.join(map(str, idx))}"
        pay[idx] = fn
    coords = {d: [offset + 10 * (i + 1) + k for k in range(s)] for i, (d, s) in enumerate(zip(dims, shape))}
    return fluent.from_source(pay, dims=list(dims), coords=coords)


UNARY = [
    ("sum", lambda a, d: a.sum(dim=d)), ("mean-batched", lambda a, d: a.mean(dim=d, batch_size=2)), ("std", lambda a, d: a.std(dim=d)),
    ("min-keep", lambda a, d: a.min(dim=d, keep_dim=True)), ("prod-batched-keep", lambda a, d: a.prod(dim=d, batch_size=2, keep_dim=True)),
    ("stack", lambda a, d: a.stack(d)), ("stack-keep", lambda a, d: a.stack(d, keep_dim=True)), ("concatenate", lambda a, d: a.concatenate(d)),
    ("concatenate-keep", lambda a, d: a.concatenate(d, keep_dim=True)), ("flatten", lambda a, d: a.flatten(dim=d)),
    ("map", lambda a, d: a.map(f)), ("expand", lambda a, d: a.expand("e", internal_dim=0, dim_size=2)),
    ("select", lambda a, d: a.select({d: a.nodes.coords[d].data[0]})), ("isel", lambda a, d: a.isel({d: 0})),
    ("add-scalar", lambda a, d: a.add(2)), ("transform", lambda a, d: a.transform(lambda x, c: x.multiply(c), [(2,), (3,)], "t")),
    # the per-parameter function returns a selection that keeps every node (a window spanning the whole dimension)
    ("transform-select-all", lambda a, d: a.transform(lambda x, vals: x.select({d: vals}), [(list(a.nodes.coords[d].data),)], "window")),
    ("select-all", lambda a, d: a.select({d: list(a.nodes.coords[d].data)})),
    ("expand-then-other-axis", lambda a, d: (a.expand("e", internal_dim=0, dim_size=2), a.expand("e2", internal_dim=1, dim_size=2))),
]
BINARY = [("add", lambda a, b: a.add(b)), ("subtract", lambda a, b: a.subtract(b)), ("multiply", lambda a, b: a.multiply(b)), ("divide", lambda a, b: a.divide(b)),
          ("power", lambda a, b: a.power(b)), ("join-new", lambda a, b: a.join(b, "j")), ("join-match", lambda a, b: a.join(b, "j", match_coord_values=True)),
          ("broadcast", lambda a, b: a.broadcast(b, exclude=list(a.nodes.dims)))]


class Operands(Harness):
    name = "fluent-operands"
    engine = "E1-crosshair"
    properties = ("C14",)
    rule = "one path = (operation, node-array shape incl. size-1 dimensions, equal/different coordinate values of the operand); executed concretely (xarray cannot run under the tracer): the solver only chooses the configuration"
    assumptions = ["this half is solver-picked configuration with concrete execution - the weakest use of the technique here"]
    outside = []

    def shards(self, tier):
        return [{"kind": "unary", "op": i} for i in range(len(UNARY))] + [{"kind": "binary", "op": i} for i in range(len(BINARY))]

    def budget(self, tier):
        return 60.0

    def bounds(self, tier):
        return {"shapes": "(1,), (2,), (3,), (1,2), (2,1), (2,2)", "operations": [n for n, _ in UNARY] + [n for n, _ in BINARY], "operand_coordinates": "equal / shifted"}

    def functions(self):
        return [fluent.Action, fluent._combine_nodes, fluent._batch_transform, fluent._expand_transform]

    def body(self, ch, params):
        with ch.untraced():
            shapes = [((1,), ("d0",)), ((2,), ("d0",)), ((3,), ("d0",)), ((1, 2), ("d0", "d1")), ((2, 1), ("d0", "d1")), ((2, 2), ("d0", "d1"))]
            shape, dims = ch.choose(shapes, "shape")
            A = src_action("a", shape, dims)
            before_a = snapshot(A)
            if params["kind"] == "unary":
                name, op = UNARY[params["op"]]
                d = ch.choose(list(dims), "dim")
                ch.note("case", {"op": name, "shape": list(shape), "dim": d})

                def result_names(r):
                    rs = r if isinstance(r, tuple) else (r,)
                    return [sorted(n.name for n in x.nodes.data.flatten()) for x in rs]

                first = None
                try:
                    first = result_names(op(A, d))
                except Exception:
                    pass  # whether the operation is applicable is not the subject; the operand must be intact either way
                if first is not None and name == "expand-then-other-axis" and set(first[0]) & set(first[1]):
                    raise Violation("different-computations-same-node-name", f"expanding along internal axis 0 and along internal axis 1 gives nodes of the same name: {sorted(set(first[0]) & set(first[1]))[:2]}")
                if first is not None:
                    # building the same program again - after other programs were built in this process - gives the same names
                    try:
                        other = UNARY[(params["op"] + 1) % len(UNARY)][1]
                        other(src_action("z", shape, dims), d)
                    except Exception:
                        pass
                    again = result_names(op(src_action("a", shape, dims), d))
                    if again != first:
                        raise Violation(f"same-program-different-names:{name}", f"{name} on shape {shape}: names depend on what was built before")
                if snapshot(A) != before_a:
                    raise Violation(f"operation-mutated-its-action:{name}", f"{name} on shape {shape} dim {d}: {before_a[:3]} -> {snapshot(A)[:3]}")
            else:
                name, op = BINARY[params["op"]]
                shifted = ch.flag("operand_coords_differ")
                B = src_action("b", shape, dims, offset=100 if shifted else 0)
                if ch.flag("scalar_coordinate"):
                    # a scalar coordinate left behind by a selection without drop, different on both sides
                    d = dims[0]
                    A = A.select({d: A.nodes.coords[d].data[0]})
                    B = B.select({d: B.nodes.coords[d].data[-1]})
                    before_a = snapshot(A)
                before_b = snapshot(B)
                ch.note("case", {"op": name, "shape": list(shape), "operand_coords_differ": shifted})
                try:
                    op(A, B)
                except Exception:
                    pass
                if snapshot(A) != before_a:
                    raise Violation(f"operation-mutated-its-action:{name}", f"{name} shape {shape}")
                if snapshot(B) != before_b:
                    raise Violation(f"operation-mutated-its-operand:{name}", f"{name} shape {shape} coords differ={shifted}: {before_b[2]} -> {snapshot(B)[2]}")
            ch.note("nontrivial", True)


register(Names())
register(Operands())
