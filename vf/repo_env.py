"""Makes /repo's current working tree importable under the symbolic engine and installs the environment stubs.

Call ``setup()`` before importing anything from ``cascade`` / ``earthkit.workflows``.
"""

from __future__ import annotations

import hashlib
import inspect
import logging
import os
import sys
import types

REPO = os.environ.get("VF_REPO", "/repo")
SRC = os.path.join(REPO, "src")
_done = False
STUBS_IN_FORCE: list[str] = []


class SyncPool:
    """Replaces ThreadPoolExecutor where threads would be invisible to the tracer: map = sequential map."""

    def __init__(self, *a, **k):
        pass

    def __enter__(self):
        return self

    def __exit__(self, *a):
        return False

    def map(self, f, it):
        return [f(x) for x in it]

    def submit(self, f, *a, **k):
        from concurrent.futures import Future

        fut = Future()
        try:
            fut.set_result(f(*a, **k))
        except Exception as e:  # what a pool does
            fut.set_exception(e)
        return fut

    def shutdown(self, *a, **k):
        pass


def setup(fake_zmq: bool = True) -> None:
    global _done
    if _done:
        return
    _done = True
    if SRC in sys.path:
        sys.path.remove(SRC)
    sys.path.insert(0, SRC)
    for m in list(sys.modules):
        if m == "cascade" or m.startswith("cascade.") or m.startswith("earthkit.workflows"):
            del sys.modules[m]
    # the earthkit namespace package in /venv must not shadow /repo/src/earthkit/workflows
    if fake_zmq:
        from vf import fakezmq

        sys.modules["zmq"] = fakezmq  # type: ignore
        STUBS_IN_FORCE.append("fakezmq: in-process FIFO per address replaces pyzmq")
    sys.modules["coptrs"] = None  # type: ignore
    STUBS_IN_FORCE.append("coptrs absent: python fallback of nearest_common_descendant is what is checked")
    logging.disable(logging.CRITICAL)
    import cascade.low.tracing as tracing

    if not tracing.__file__.startswith(SRC):
        raise RuntimeError(f"cascade imported from {tracing.__file__}, not from {SRC}")
    tracing.mark = lambda labels: None
    tracing.trace = lambda kind, value: None
    tracing.timer = lambda f, kind: f
    tracing.label = lambda key, value: None
    STUBS_IN_FORCE.append("tracing/logging off: cascade.low.tracing.mark/trace/timer/label are no-ops, logging disabled")
    import earthkit.workflows as ew

    if not ew.__file__.startswith(SRC):
        raise RuntimeError(f"earthkit.workflows imported from {ew.__file__}, not from {SRC}")


def patch_perf_counters() -> None:
    """perf_counter_ns is only used for tracing; CrossHair would make it symbolic."""
    import cascade.scheduler.assign as assign
    import cascade.executor.runner.runner as runner

    assign.perf_counter_ns = lambda: 0
    runner.perf_counter_ns = lambda: 0
    import cascade.scheduler.graph as graph

    graph.ThreadPoolExecutor = SyncPool
    STUBS_IN_FORCE.append("perf_counter_ns -> 0 in scheduler.assign / runner.runner (tracing only)")
    STUBS_IN_FORCE.append("SyncPool replaces ThreadPoolExecutor in scheduler.graph.precompute (map = sequential map)")


def describe(objs) -> list[dict]:
    """Evidence: module, qualname and source hash of each function/class encoded from the current tree."""
    out = []
    for o in objs:
        try:
            src = inspect.getsource(o)
            f = inspect.getsourcefile(o) or ""
            out.append(
                {
                    "module": getattr(o, "__module__", None) or getattr(o, "__name__", "?"),
                    "qualname": getattr(o, "__qualname__", getattr(o, "__name__", "?")),
                    "file": os.path.relpath(f, REPO) if f.startswith(REPO) else f,
                    "sha1": hashlib.sha1(src.encode()).hexdigest()[:12],
                }
            )
        except Exception as e:  # pragma: no cover
            out.append({"qualname": repr(o), "error": repr(e)})
    return out
