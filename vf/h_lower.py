"""C10 -- lowering (cascade.low.into) + running a task (runner.run): what the callable receives, and the binding of
yielded values to declared outputs/coordinates."""

from __future__ import annotations

import itertools

from vf import repo_env
from vf.engine_xh import HarnessError, Violation
from vf.runner import Harness, register

repo_env.setup()
repo_env.patch_perf_counters()
import cascade.controller.notify as c_notify  # noqa: E402
import cascade.executor.runner.runner as r_runner  # noqa: E402
import cascade.low.into as into  # noqa: E402
from cascade.executor.runner.entrypoint import RunnerContext  # noqa: E402
from cascade.executor.msg import TaskSequence  # noqa: E402
from cascade.low.core import DatasetId, WorkerId  # noqa: E402
from cascade.low.views import param_source  # noqa: E402
import earthkit.workflows.fluent as fluent  # noqa: E402
from earthkit.workflows.graph import Graph, Node  # noqa: E402


def rec(*args, **kwargs):
    return ("rec", args, tuple(sorted(kwargs.items())))


def src0():
    return ("src", 0)


def src1():
    return ("src", 1)


def src2():
    yield ("src2", "first")
    yield ("src2", "second")


class DictMemory:
    def __init__(self):
        self.store = {}
        self.order = []

    def provide(self, ds, annotation):
        if ds not in self.store:
            raise Violation("input-not-produced", repr(ds))
        return self.store[ds]

    def handle(self, outputId, schema, value, isPublish):
        self.store[outputId] = value
        self.order.append(outputId)

    def flush(self):
        pass


def run_job(job, order):
    """Sequential execution of a lowered job with the real runner.run."""
    mem = DictMemory()
    w = WorkerId("h0", "w0")
    ctx = RunnerContext(workerId=w, job=job, callback="cb", param_source=param_source(job.edges))
    for t in order:
        ts = TaskSequence(worker=w, tasks=[t], publish=set(job.outputs_of(t)))
        r_runner.run(t, ctx.project(ts), mem)
    return mem


STATICS = [7, "s", None, 2.5, "x"]


class Lower(Harness):
    name = "lower-args"
    engine = "E1-crosshair"
    properties = ("C10",)
    rule = "one path = (arity, which positions are upstream inputs, static values, kwarg, source kinds, by-hand vs fluent construction); non-trivial = >=1 input"
    assumptions = ["a static string argument never equals the name of one of the node's inputs (ambiguous by construction: the payload encodes inputs by name)",
                   "values are concrete picks from palettes (pydantic/cloudpickle cannot carry solver proxies): the solver chooses the configuration"]
    outside = ["entrypoints given by name, package environments", "more than 4 arguments"]

    def shards(self, tier):
        amax = 3 if tier == "quick" else 4
        return [{"arity": a, "nin": k, "mode": m} for a in range(0, amax + 1) for k in range(0, min(a, 3 if tier == "thorough" else 2) + 1) for m in ("hand", "fluent")]

    def budget(self, tier):
        return 90.0 if tier == "quick" else 600.0

    def bounds(self, tier):
        return {"arity": "0..3" if tier == "quick" else "0..4", "inputs": "0..2" if tier == "quick" else "0..3", "static_palette": STATICS, "kwargs": "0..1"}

    def functions(self):
        return [into.node2task, into.graph2job, r_runner.run, RunnerContext.project, fluent.Node.__init__, fluent.Payload]

    def body(self, ch, params):
        with ch.untraced():
            arity, nin, mode = params["arity"], params["nin"], params["mode"]
            # which positions are inputs: an injective map input k -> position
            positions = list(range(arity))
            inpos = []
            for k in range(nin):
                p = ch.choose(positions, f"pos{k}")
                positions.remove(p)
                inpos.append(p)
            statics = {p: ch.choose(STATICS, f"static{p}") for p in positions}
            kw = {"kw": ch.choose([3, "input0", None], "kwval")} if ch.flag("haskw") else {}
            # sources
            srcs = []
            for k in range(nin):
                kind = ch.pick(3, f"src{k}")  # 0: default output of a fresh source, 1: 2nd output of a generator, 2: same source as input 0
                if kind == 2 and k == 0:
                    kind = 0
                srcs.append(kind)
            if mode == "hand":
                inames = ["x", "yy", "input7"][:nin]
                parents = []
                for k, kind in enumerate(srcs):
                    if kind == 0:
                        parents.append(Node(f"p{k}", payload=(src0 if k % 2 == 0 else src1, [], {})).get_output())
                    elif kind == 1:
                        parents.append(Node(f"p{k}", outputs=["a", "b"], payload=(src2, [], {})).get_output("b"))
                    else:
                        parents.append(parents[0])
                args = [None] * arity
                for k, p in enumerate(inpos):
                    args[p] = inames[k]
                for p, v in statics.items():
                    args[p] = v
                for v in statics.values():
                    if isinstance(v, str) and v in inames:
                        ch.assume(False)
                c = Node("c", payload=(rec, list(args), dict(kw)), **{inames[k]: parents[k] for k in range(nin)})
                exp_positions = {k: inpos[k] for k in range(nin)}
                final_arity = arity
            else:
                parents = []
                for k, kind in enumerate(srcs):
                    if kind == 0:
                        parents.append(fluent.Node(fluent.Payload(src0 if k % 2 == 0 else src1), name=f"p{k}"))
                    elif kind == 1:
                        parents.append(fluent.Node(fluent.Payload(src2), name=f"p{k}", num_outputs=2).get_output("1"))
                    else:
                        parents.append(parents[0])
                explicit = ch.flag("explicit_input_names")
                inames = [fluent.Node.input_name(k) for k in range(nin)]
                for v in list(statics.values()) + list(kw.values()):
                    if isinstance(v, str) and v in inames:
                        ch.assume(False)
                if explicit:
                    args = [None] * arity
                    for k, p in enumerate(inpos):
                        args[p] = inames[k]
                    for p, v in statics.items():
                        args[p] = v
                    exp_positions = {k: inpos[k] for k in range(nin)}
                    final_arity = arity
                else:
                    # only statics given; fluent appends the inputs after them, in order
                    args = [statics[p] for p in sorted(statics)]
                    exp_positions = {k: len(args) + k for k in range(nin)}
                    final_arity = len(args) + nin
                pay = fluent.Payload(rec, list(args), dict(kw))
                if not explicit and ch.flag("payload_used_before"):
                    # the same Payload object served a node with more inputs before (as a batched reduce does)
                    extra = fluent.Node(fluent.Payload(src1), name="extra")
                    fluent.Node(pay, inputs=list(parents) + [extra])
                c = fluent.Node(pay, inputs=list(parents))
            g = Graph([c])
            names = [n.name for n in g.nodes(forwards=True)]
            payload_before = (list(c.payload[1]), dict(c.payload[2]))
            try:
                job = into.graph2job(g)
            except Exception as e:
                raise Violation(f"lowering-raised-{type(e).__name__}", str(e)[:200])
            if sorted(job.tasks) != sorted(names):
                raise Violation("tasks-differ-from-nodes", f"{sorted(job.tasks)} vs {sorted(names)}")
            if (list(c.payload[1]), dict(c.payload[2])) != payload_before:
                raise Violation("lowering-rewrote-the-node-payload", f"{payload_before} -> {c.payload[1:]}")
            if len(job.edges) != nin:
                raise Violation("edge-count", f"{len(job.edges)} edges for {nin} inputs")
            try:
                mem = run_job(job, names)
            except Violation:
                raise
            except Exception as e:
                raise Violation(f"run-raised-{type(e).__name__}", str(e)[:200])
            got = mem.store[DatasetId(c.name, "0")]
            # oracle: declared args with input names replaced by the upstream values
            exp = [None] * final_arity
            if mode == "hand" or explicit:
                for p, v in statics.items():
                    exp[p] = v
            else:
                for i, p in enumerate(sorted(statics)):
                    exp[i] = statics[p]
            for k in range(nin):
                par = parents[k] if not isinstance(parents[k], Node) else parents[k].get_output()
                up = mem.store[DatasetId(par.parent.name, par.name)]
                exp[exp_positions[k]] = up
            want = ("rec", tuple(exp), tuple(sorted(kw.items())))
            ch.note("case", {"mode": mode, "args": [repr(a) for a in args], "kw": kw, "inputs": inpos})
            ch.note("nontrivial", nin >= 1)
            if got != want:
                raise Violation("callable-received-wrong-arguments", f"got {got!r} want {want!r}")


def gen_k(k, n=None, none_surplus=False):
    def g(*a, **kw):
        for i in range(k):
            # with none_surplus the values beyond the declared outputs are None (a stray bare `yield`)
            yield None if (none_surplus and n is not None and i >= n) else ("y", i)

    return g


class Yields(Harness):
    name = "lower-yields"
    engine = "E1-crosshair"
    properties = ("C10",)
    rule = "one path = (N declared outputs 1..12, K yielded values 0..13, fluent vs by-hand output names); non-trivial = N >= 2"
    assumptions = ["coordinates of a fluent generator node are mapped to outputs as Action.__init__ does (coordinate i <-> i-th declared output)"]
    outside = []

    def shards(self, tier):
        return [{"N": n, "mode": m} for n in range(1, 13) for m in ("fluent", "hand", "hand-unsorted")] + [{"N": n, "mode": "hand", "none_surplus": True} for n in (2, 3, 11)]

    def budget(self, tier):
        return 60.0

    def bounds(self, tier):
        return {"declared_outputs_N": "1..12", "yielded_K": "0..13"}

    def functions(self):
        return [r_runner.run, c_notify.is_last_output_of, into.node2task, fluent.Node.__init__, fluent.Action.__init__]

    def body(self, ch, params):
        import numpy as np
        import xarray as xr

        with ch.untraced():
            N, mode = params["N"], params["mode"]
            K = ch.pick(15, "K")
            gen = gen_k(K, N, params.get("none_surplus", False))
            if mode == "fluent":
                node = fluent.Node(fluent.Payload(gen), num_outputs=N, name="g")
                if N > 1:
                    act = fluent.Action(xr.DataArray(np.array([node], dtype=object), dims=["d"]), yields=("y", list(range(N))))
                    coord2out = {i: act.nodes.sel(y=i).data.flatten()[0].name for i in range(N)}
                else:
                    coord2out = {0: Node.DEFAULT_OUTPUT}
                g = Graph([node])
                name = node.name
            else:
                outs = [f"o{i}" for i in range(N)] if mode == "hand" else [f"o{(N - 1 - i)}" for i in range(N)]
                if N == 1:
                    outs = None
                node = Node("g", outputs=outs, payload=(gen, [], {}))
                coord2out = {i: (outs[i] if outs else Node.DEFAULT_OUTPUT) for i in range(N)}
                g = Graph([node])
                name = "g"
            job = into.graph2job(g)
            raised = None
            mem = DictMemory()
            try:
                w = WorkerId("h0", "w0")
                ctx = RunnerContext(workerId=w, job=job, callback="cb", param_source=param_source(job.edges))
                ts = TaskSequence(worker=w, tasks=[name], publish=set(job.outputs_of(name)))
                r_runner.run(name, ctx.project(ts), mem)
            except Exception as e:
                raised = e
            ch.note("case", {"N": N, "K": K, "mode": mode})
            ch.note("nontrivial", N >= 2)
            if N == 1:
                # single-output nodes store whatever the callable returned (a generator object): nothing to bind
                if raised is not None:
                    raise Violation("single-output-run-raised", repr(raised))
                return
            if K != N:
                if raised is None:
                    raise Violation("yield-count-mismatch-ignored", f"N={N} declared outputs, K={K} yielded values, no failure reported")
                return
            if raised is not None:
                raise Violation("matching-yield-count-raised", repr(raised))
            for i in range(N):
                ds = DatasetId(name, coord2out[i])
                if mem.store.get(ds) != ("y", i):
                    raise Violation("yield-bound-to-wrong-output", f"N={N}: value #{i} expected under output {coord2out[i]!r}, found {mem.store.get(ds)!r}")
            last = mem.order[-1]
            if not c_notify.is_last_output_of(last, job):
                raise Violation("last-published-output-not-recognised", f"{last} published last but is_last_output_of says no")
            for ds in mem.order[:-1]:
                if c_notify.is_last_output_of(ds, job):
                    raise Violation("completion-assumed-early", f"{ds} is not the last output published")


def scaled(x, factor=1, offset=0):
    return ("scaled", x, factor, offset)


def two(a, b):
    return ("two", a, b)


class BuilderRun(Harness):
    """Jobs made with TaskBuilder/JobBuilder (positional and keyword edges, defaults, bound values) executed by runner.run."""

    name = "lower-builder-run"
    engine = "E1-crosshair"
    properties = ("C10",)
    rule = "one path = (consumer callable, which parameters are fed by edges - positionally or by keyword, incl. keywords that have defaults - and which carry bound values); non-trivial = >=1 edge"
    assumptions = ["values are palette picks"]
    outside = []

    def shards(self, tier):
        return [{"f": f} for f in ("scaled", "two")]

    def budget(self, tier):
        return 60.0

    def bounds(self, tier):
        return {"callables": ["scaled(x, factor=1, offset=0)", "two(a, b)"], "edges": "0..2, positional or keyword"}

    def functions(self):
        return [r_runner.run, RunnerContext.project]

    def body(self, ch, params):
        from cascade.low.builders import JobBuilder, TaskBuilder

        with ch.untraced():
            f = scaled if params["f"] == "scaled" else two
            pnames = ["x", "factor", "offset"] if f is scaled else ["a", "b"]
            jb = JobBuilder().with_node("s0", TaskBuilder.from_callable(src0)).with_node("s1", TaskBuilder.from_callable(src1))
            consumer = TaskBuilder.from_callable(f)
            fed = {}
            expect_kw, expect_ps = {}, {}
            for k, pn in enumerate(pnames):
                how = ch.pick(4, f"how_{pn}")  # 0 nothing, 1 edge by keyword, 2 edge by position, 3 bound keyword value
                src = ["s0", "s1"][ch.pick(2, f"src_{pn}")] if how in (1, 2) else None
                if how == 1:
                    fed[pn] = ("kw", src)
                elif how == 2:
                    fed[pn] = ("ps", src, k)
                elif how == 3:
                    consumer = consumer.with_values(**{pn: 40 + k})
                    expect_kw[pn] = 40 + k
            # positional edges must form a prefix and must not also be given by keyword
            ps = sorted(v[2] for v in fed.values() if v[0] == "ps")
            ch.assume(ps == list(range(len(ps))))
            for pn, v in fed.items():
                if v[0] == "ps":
                    ch.assume(pn not in expect_kw)
            jb = jb.with_node("c", consumer)
            for pn, v in fed.items():
                jb = jb.with_edge(v[1], "c", pn if v[0] == "kw" else v[2])
            res = jb.build()
            ch.assume(res.e is None or not res.e)
            job = res.t
            # what the callable must receive: defaults < bound values < upstream values
            sig_defaults = {"factor": 1, "offset": 0} if f is scaled else {}
            kwargs = dict(sig_defaults)
            kwargs.update(expect_kw)
            args = []
            up = {"s0": ("src", 0), "s1": ("src", 1)}
            for pn, v in fed.items():
                if v[0] == "kw":
                    kwargs[pn] = up[v[1]]
            for pn in pnames:
                if pn in fed and fed[pn][0] == "ps":
                    args.append(up[fed[pn][1]])
                    kwargs.pop(pn, None) if pn not in sig_defaults else None
            # a positional edge for a parameter that still has a default entry is a caller error (duplicate argument)
            for pn in pnames:
                if pn in fed and fed[pn][0] == "ps" and pn in kwargs:
                    ch.assume(False)
            try:
                want = f(*args, **kwargs)
            except TypeError:
                ch.assume(False)
            ch.note("case", {"f": params["f"], "fed": {k: list(v) for k, v in fed.items()}, "bound": expect_kw})
            ch.note("nontrivial", bool(fed))
            try:
                mem = run_job(job, ["s0", "s1", "c"])
            except Violation:
                raise
            except Exception as e:
                raise Violation(f"run-raised-{type(e).__name__}", str(e)[:200])
            got = mem.store[DatasetId("c", "0")]
            if got != want:
                raise Violation("callable-received-wrong-arguments", f"got {got!r} want {want!r}")


register(Lower())
register(Yields())
register(BuilderRun())



class SerdeRegistryHarness(Harness):
    """What a task produces is what its consumers (and the caller) receive: through executor.serde with a custom serde registered
    for one class, values of exactly that class, of a subclass, of an unrelated class and builtins all come back equal and of
    the same type."""

    name = "serde-registry"
    engine = "E1-crosshair"
    properties = ("C10", "C01")
    rule = "one path = (which classes have a registered serde, value kind); non-trivial = a serde is registered for a base class of the value"
    assumptions = ["cloudpickle is trusted"]
    outside = []

    def shards(self, tier):
        return [{}]

    def budget(self, tier):
        return 60.0

    def bounds(self, tier):
        return {"values": ["Grid", "MaskedGrid (subclass of Grid)", "Other", "int 0", "tuple"], "registered": "none / Grid / Grid and Other"}

    def functions(self):
        import cascade.executor.serde as serde

        return [serde.ser_output, serde.des_output, serde.SerdeRegistry]

    def body(self, ch, params):
        import cascade.executor.serde as serde
        from vf import serde_types as T

        with ch.untraced():
            old = dict(serde.SerdeRegistry.serde)
            try:
                serde.SerdeRegistry.serde.clear()
                reg = ch.pick(3, "registered")
                if reg >= 1:
                    serde.SerdeRegistry.register(T.Grid, "vf.serde_types.ser_grid", "vf.serde_types.des_grid")
                if reg >= 2:
                    serde.SerdeRegistry.register(T.Other, "cloudpickle.dumps", "cloudpickle.loads")
                v = ch.choose([T.Grid([1, 2, 3]), T.MaskedGrid([1, 2, 3], [0, 1, 0]), T.Other(5), 0, (1, "a")], "value")
                ch.note("case", {"registered": reg, "value": repr(v)[:60]})
                ch.note("nontrivial", reg >= 1 and isinstance(v, T.MaskedGrid))
                try:
                    raw, deser_fun = serde.ser_output(v, "Any")
                    back = serde.des_output(bytes(raw), "Any", deser_fun)
                except Exception as e:
                    raise Violation(f"serde-raised-{type(e).__name__}", f"{v!r}: {e}")
                if type(back) is not type(v) or back != v:
                    raise Violation("value-changed-between-producer-and-consumer", f"{v!r} came back as {back!r} (registered: {reg})")
            finally:
                serde.SerdeRegistry.serde.clear()
                serde.SerdeRegistry.serde.update(old)


register(SerdeRegistryHarness())
