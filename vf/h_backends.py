"""C15 -- array backends on symbolic reals (engine E3): every operation agrees with the reference for all real element
values; every function marked batchable is batchable for every (ordered) partition, for all real element values."""

from __future__ import annotations

import itertools
import multiprocessing as mp
import time
from fractions import Fraction

import numpy as np
import z3

from vf import repo_env
from vf.runner import Harness, HarnessResult, register

repo_env.setup()
import xarray as xr  # noqa: E402
from earthkit.workflows import backends  # noqa: E402
from earthkit.workflows.backends import arrayapi as b_arrayapi  # noqa: E402
from earthkit.workflows.backends import xarray as b_xarray  # noqa: E402
from vf import engine_symreal as E  # noqa: E402
from vf.engine_symreal import Q  # noqa: E402

REDUCTIONS = ["sum", "prod", "min", "max", "mean", "std", "var"]
SYMMETRIC = {"sum", "prod", "min", "max", "mean", "std", "var"}
DIMS = ["x", "y", "z"]


# ---- reference, written with python operators only (works for Q and for Fraction) -----------------------------
def r_max(a, b):
    if isinstance(a, Q) or isinstance(b, Q):
        ta, tb = E._t(a), E._t(b)
        return Q(z3.If(ta >= tb, ta, tb))
    return a if a >= b else b


def r_min(a, b):
    if isinstance(a, Q) or isinstance(b, Q):
        ta, tb = E._t(a), E._t(b)
        return Q(z3.If(ta <= tb, ta, tb))
    return a if a <= b else b


def r_sqrt(a):
    if isinstance(a, Q):
        return a.sqrt()
    raise E.Unsupported("exact sqrt of a rational")


def ref_reduce(op, xs):
    n = len(xs)
    if op == "sum":
        r = xs[0]
        for x in xs[1:]:
            r = r + x
        return r
    if op == "prod":
        r = xs[0]
        for x in xs[1:]:
            r = r * x
        return r
    if op == "max":
        r = xs[0]
        for x in xs[1:]:
            r = r_max(r, x)
        return r
    if op == "min":
        r = xs[0]
        for x in xs[1:]:
            r = r_min(r, x)
        return r
    m = ref_reduce("sum", xs) / n
    if op == "mean":
        return m
    v = ref_reduce("sum", [(x - m) * (x - m) for x in xs]) / n
    if op == "var":
        return v
    if op == "std":
        return r_sqrt(v)
    raise KeyError(op)


def groups_multi(arrays):
    """Elementwise groups across k equally shaped arrays -> (shape, [group per output position])."""
    shape = arrays[0].shape
    return shape, [[a[idx] for a in arrays] for idx in np.ndindex(*shape)]


def groups_axis(array, axis):
    """Groups of a single array reduced along axis (None = everything)."""
    if axis is None:
        return (), [list(array.flatten())]
    shape = tuple(s for i, s in enumerate(array.shape) if i != axis)
    out = []
    for idx in np.ndindex(*shape):
        full = list(idx)
        full.insert(axis, slice(None))
        out.append(list(array[tuple(full)]))
    return shape, out


# ---- wrapping for the two backends ---------------------------------------------------------------------------------
def wrap(kind, a, labelled=False):
    if kind == "numpy":
        return a
    if labelled:
        # integer coordinate labels that are a permutation of the positions: indices stay positional, as in numpy.take
        return xr.DataArray(a, dims=DIMS[: a.ndim], coords={DIMS[i]: list(range(a.shape[i]))[::-1] for i in range(a.ndim)})
    return xr.DataArray(a, dims=DIMS[: a.ndim])


def unwrap(r):
    if isinstance(r, (xr.DataArray,)):
        return np.asarray(r.data, dtype=object) if r.ndim else np.asarray(r.data.item() if hasattr(r.data, "item") else r.data, dtype=object)
    return np.asarray(r, dtype=object)


def red_kwargs(kind, op, axis=None):
    kw = {}
    if kind == "xarray":
        kw["skipna"] = False
        if axis is not None:
            kw["dim"] = DIMS[axis]
    elif axis is not None:
        kw["axis"] = axis
    return kw


def make_inputs(mk, k, shape):
    return [mk(f"a{i}", shape) for i in range(k)]


def frac_array(name, shape, values):
    return values[name]


# ---- the obligations ------------------------------------------------------------------------------------------
def case_list(tier):
    """Every (kind, family, details) configuration within the bound."""
    kmax = 4 if tier == "quick" else 6
    shapes = [(2,), (2, 2), (2, 1), (1, 2)] if tier == "quick" else [(2,), (2, 2), (2, 1), (1, 2), (3,), (2, 3), (1, 1)]
    cases = []
    for kind in ("numpy", "xarray"):
        for op in REDUCTIONS:
            for k in list(range(2, kmax + 1)) + ([5, 6, 9] if (tier == "quick" and op in ("sum", "prod", "mean")) else []):
                for shape in shapes:
                    if k > 4 and shape != (2,):
                        continue
                    if op in ("min", "max") and k >= 3:
                        # every element forks on the order of its k values: keep the product of orders small
                        if shape not in ((2,),):
                            continue
                        shape = (2,) if k == 3 else (1,)
                    cases.append((kind, "multi", op, k, shape))
            for shape in shapes:
                for axis in [None] + list(range(len(shape))):
                    cases.append((kind, "single", op, 1, shape, axis))
            if kind == "xarray" and op in ("sum", "max", "mean"):
                cases.append((kind, "multi", op, 2, (2, 2), "transposed"))
        for k in range(1 if kind == "numpy" else 2, kmax + 1):
            for shape in shapes:
                if k > 4 and shape != (2,):
                    continue
                for axis in range(len(shape) + 1):
                    cases.append((kind, "stack", "stack", k, shape, axis))
                if k == 2:
                    for axis in range(-(len(shape) + 1), 0):  # counted from the end, as numpy.stack accepts it
                        cases.append((kind, "stack", "stack", k, shape, axis))
                for axis in range(len(shape)):
                    cases.append((kind, "concat", "concat", k, shape, axis))
                    if kind == "xarray" and k == 2:
                        # every input carries the same, decreasing, integer labels: the result keeps the inputs' order
                        cases.append((kind, "concat", "concat", k, shape, axis, "labelled"))
        for op in ("add", "subtract", "multiply", "divide", "pow"):
            for shape in shapes:
                cases.append((kind, "binary", op, 2, shape))
        if kind == "numpy":
            # arguments of different rank are broadcast against each other before stacking
            for axis in (-3, -2, -1, 0, 1, 2):
                cases.append((kind, "stack-mixed", "stack", 2, (2,), axis))
        if kind == "xarray":
            # operands of different rank are broadcast against each other *by dimension name* before stacking
            for axis in (-3, -2, -1, 0, 1, 2):
                cases.append((kind, "stack-mixed-x", "stack", 2, (2,), axis))
                cases.append((kind, "stack-mixed-x", "stack", 2, (2,), axis, "second-dim"))
        for shape in shapes:
            for axis in range(len(shape)):
                n_ax = shape[axis]
                inds = [0, n_ax - 1, [0], [n_ax - 1, 0], -1, [-1], [-1, 0]]
                if n_ax >= 2:
                    inds += [[0, 1], [-2, -1], [1, 1]]  # consecutive runs (also counted from the end), a repeated position
                for ind in inds:
                    cases.append((kind, "take", "take", 1, shape, axis, ind))
                    if kind == "numpy" and ind in (0, [0], -1):
                        cases.append((kind, "take", "take", 1, shape, axis - len(shape), ind))  # the axis counted from the end
                    if kind == "xarray" and shape[axis] > 1:
                        cases.append((kind, "take", "take", 1, shape, axis, ind, "labelled"))
    # mixed dtypes: concrete witnesses (values a narrower dtype cannot hold), compared with NumPy on the promoted arrays
    for kind in ("numpy", "xarray"):
        for d0, d1 in DTYPE_PAIRS:
            for op in REDUCTIONS + ["stack", "concat", "add", "subtract", "multiply", "divide"]:
                cases.append((kind, "dtype", op, 2, (2,), (d0, d1)))
    # batchability: discovered from the code, not from a list
    marked = sorted(n for n in dir(backends.Backend) if getattr(getattr(backends.Backend, n), "batchable", False))
    bk = 4 if tier == "quick" else 5
    for kind in ("numpy", "xarray"):
        for name in marked:
            for k in range(2, bk + 1):
                bshape = (1,) if name in ("min", "max") and k >= 4 else (2,)
                for parts in compositions(k):
                    if len(parts) < 2 or len(parts) == k:
                        continue
                    cases.append((kind, "batch", name, k, bshape, parts, "ordered"))
                if name in SYMMETRIC and k <= 4:
                    for parts in set_partitions(list(range(k))):
                        if len(parts) < 2 or len(parts) == k or is_contiguous(parts):
                            continue
                        cases.append((kind, "batch", name, k, bshape, tuple(tuple(p) for p in parts), "set"))
    return cases, marked


DTYPE_PAIRS = [("int64", "float64"), ("float64", "int64"), ("int8", "int64"), ("float32", "float64"), ("bool", "int64"), ("int64", "int64"),
               ("int8", "int8"), ("uint8", "uint8"), ("bool", "bool"), ("int16", "int16")]


def dtype_witness(dtype, first):
    if dtype == "bool":
        return np.array([True, False] if first else [True, True], dtype=bool)
    if dtype.startswith("float"):
        return np.array([1.0, 2.0] if first else [0.5, 300.25], dtype=dtype)
    if dtype in ("int8", "uint8", "int16"):
        # two values whose sum / product leaves the type: a reduction must widen as numpy's does
        hi = {"int8": 100, "uint8": 200, "int16": 30000}[dtype]
        return np.array([hi, 2] if first else [hi, 3 if dtype == "uint8" else -7], dtype=dtype)
    return np.array([1, 2] if first else [300, -7], dtype=dtype)


def run_dtype_case(case):
    """Concrete execution (no solver): the sub-clause 'any dtype' of C15 is only sampled, on witnesses chosen so that a cast of
    one argument to another argument's dtype, or a narrower accumulator, changes the value."""
    kind, _, op, k, shape, (d0, d1) = case
    a0, a1 = dtype_witness(d0, True), dtype_witness(d1, False)
    rt = np.result_type(a0.dtype, a1.dtype)
    p0, p1 = a0.astype(rt), a1.astype(rt)
    W = [wrap(kind, a0), wrap(kind, a1)]
    f = getattr(backends, op)
    with np.errstate(all="ignore"):
        if op in REDUCTIONS:
            got = f(*W, **({"skipna": False} if kind == "xarray" else {}))
            want = getattr(np, op)(np.stack([p0, p1]), axis=0)
        elif op == "stack":
            got = f(*W, axis=0) if kind == "numpy" else f(*W, dim="new", axis=0)
            want = np.stack([p0, p1], axis=0)
        elif op == "concat":
            got = f(*W, axis=0) if kind == "numpy" else f(*W, dim=DIMS[0])
            want = np.concatenate([p0, p1], axis=0)
        else:
            try:
                want = getattr(np, op)(a0, a1)
            except TypeError:
                # NumPy refuses the operation for these dtypes (bool - bool): the backend has to refuse it as well
                try:
                    f(W[0], W[1])
                except Exception:
                    return False, "both refuse"
                return True, f"{op} of {a0.dtype} arrays: numpy raises TypeError, the backend returns a value"
            got = f(W[0], W[1])
    g = np.asarray(got.data if isinstance(got, xr.DataArray) else got)
    if g.shape != want.shape:
        return True, f"shape {g.shape} vs numpy {want.shape}"
    if not np.allclose(g.astype("float64"), want.astype("float64"), rtol=1e-12, atol=0, equal_nan=True):
        return True, f"{op}({a0!r}, {a1!r}) = {g!r}, numpy gives {want!r}"
    return False, "equal"


def compositions(k):
    out = []
    for cuts in itertools.product([0, 1], repeat=k - 1):
        parts, cur = [], [0]
        for i, c in enumerate(cuts):
            if c:
                parts.append(tuple(cur))
                cur = []
            cur.append(i + 1)
        parts.append(tuple(cur))
        out.append(tuple(parts))
    return out


def set_partitions(items):
    if not items:
        yield []
        return
    first, rest = items[0], items[1:]
    for p in set_partitions(rest):
        for i in range(len(p)):
            yield p[:i] + [[first] + p[i]] + p[i + 1:]
        yield [[first]] + p


def is_contiguous(parts):
    flat = [x for p in sorted(parts, key=min) for x in sorted(p)]
    return flat == sorted(flat) and all(sorted(p) == list(range(min(p), max(p) + 1)) for p in parts)


def apply_case(case, inputs):
    """Run the real backend for `case` on `inputs` (object arrays of Q or Fraction). Returns (got, want) as
    (shape, flat list) pairs of python values (Q / Fraction)."""
    kind, fam, op = case[0], case[1], case[2]
    snapshot_ = [a.copy() for a in inputs]
    W = [wrap(kind, a, labelled=(case[-1] == "labelled")) for a in inputs]
    if case[-1] == "transposed" and kind == "xarray":
        # the second operand stores the same named dimensions in the other order: operands are combined by name
        W[1] = xr.DataArray(np.ascontiguousarray(inputs[1].T), dims=DIMS[: inputs[1].ndim][::-1])
    f = getattr(backends, op)
    if fam == "multi":
        got = f(*W, **red_kwargs(kind, op))
        shape, groups = groups_multi(inputs)
        want = [ref_reduce(op, g) for g in groups]
    elif fam == "single":
        axis = case[5]
        got = f(W[0], **red_kwargs(kind, op, axis))
        shape, groups = groups_axis(inputs[0], axis)
        want = [ref_reduce(op, g) for g in groups]
    elif fam == "stack":
        axis = case[5]
        got = f(*W, axis=axis) if kind == "numpy" else f(*W, dim="new", axis=axis)
        lab = [np.arange(a.size).reshape(a.shape) + 1000 * i for i, a in enumerate(inputs)]
        src = np.stack(lab, axis=axis)
        shape, want = src.shape, [inputs[v // 1000].flatten()[v % 1000] for v in src.flatten()]
    elif fam == "stack-mixed":
        axis = case[5]
        got = f(*W, axis=axis)
        lab = [np.arange(a.size).reshape(a.shape) + 1000 * i for i, a in enumerate(inputs)]
        src = np.stack(np.broadcast_arrays(*lab), axis=axis)
        shape, want = src.shape, [inputs[v // 1000].flatten()[v % 1000] for v in src.flatten()]
    elif fam == "stack-mixed-x":
        axis = case[5]
        d0 = DIMS[1] if case[-1] == "second-dim" else DIMS[0]
        W = [xr.DataArray(inputs[0], dims=(d0,)), xr.DataArray(inputs[1], dims=DIMS[:2])]
        got = f(*W, dim="new", axis=axis)
        gdims = list(got.dims)
        if "new" not in gdims or gdims.index("new") != axis % 3 or sorted(d for d in gdims if d != "new") != sorted(DIMS[:2]):
            return (("dims", tuple(gdims)), [1]), (("dims", "new at position", axis % 3), [0])
        others = [d for d in gdims if d != "new"]
        lab = [xr.DataArray(np.arange(2), dims=(d0,)), xr.DataArray(np.arange(4).reshape(2, 2) + 1000, dims=DIMS[:2])]
        full = [b.transpose(*others).values for b in xr.broadcast(*lab)]
        src = np.stack(full, axis=axis)
        shape, want = src.shape, [inputs[v // 1000].flatten()[v % 1000] for v in src.flatten()]
    elif fam == "concat":
        axis = case[5]
        got = f(*W, axis=axis) if kind == "numpy" else f(*W, dim=DIMS[axis])
        lab = [np.arange(a.size).reshape(a.shape) + 1000 * i for i, a in enumerate(inputs)]
        src = np.concatenate(lab, axis=axis)
        shape, want = src.shape, [inputs[v // 1000].flatten()[v % 1000] for v in src.flatten()]
    elif fam == "binary":
        got = f(W[0], W[1])
        a, b = inputs
        py = {"add": lambda x, y: x + y, "subtract": lambda x, y: x - y, "multiply": lambda x, y: x * y, "divide": lambda x, y: x / y,
              "pow": lambda x, y: x ** y}[op]
        shape, want = a.shape, [py(x, y) for x, y in zip(a.flatten(), b.flatten())]
    elif fam == "take":
        axis, ind = case[5], case[6]
        got = f(W[0], ind, dim=axis)
        lab = np.arange(inputs[0].size).reshape(inputs[0].shape)
        src = np.take(lab, ind, axis=axis)
        shape, want = src.shape, [inputs[0].flatten()[v] for v in src.flatten()]
    elif fam == "batch":
        parts = case[5]
        extra = {}
        if op == "concat":
            extra = {"axis": 0} if kind == "numpy" else {"dim": DIMS[0]}
        elif kind == "xarray":
            extra = {"skipna": False}
        inner = []
        for p in parts:
            if len(p) == 1:
                inner.append(W[p[0]])  # a batch of one is passed through, as the fluent layer does
            else:
                inner.append(f(*[W[i] for i in p], **extra))
        got = f(*inner, **extra)
        whole = f(*W, **extra)
        wa = unwrap(whole)
        shape, want = tuple(wa.shape), list(wa.flatten())
    else:
        raise KeyError(fam)
    ga = unwrap(got)
    # the operands belong to the caller: a later call that receives the same array must see the same data
    for k_, (a_, before_) in enumerate(zip(inputs, snapshot_)):
        if a_.shape != before_.shape or any(x is not y for x, y in zip(a_.flatten(), before_.flatten())):
            return (("operand", k_, "modified"), [1]), (("operand", k_, "intact"), [0])
    return (tuple(ga.shape), list(ga.flatten())), (tuple(shape), list(want))


def run_case(case):
    """Symbolic run + solver verdict (+ exact replay of a counterexample). Executed in a worker process."""
    t0 = time.perf_counter()
    q0, s0 = E.STATS["queries"], E.STATS["seconds"]
    kind, fam, op, k, shape = case[:5]
    names = {f"a{i}": shape for i in range(k)}
    out = {"case": _plain(case), "result": "holds", "paths": 0}
    if fam == "dtype":
        try:
            bad, why = run_dtype_case(case)
            out["paths"] = 1
            if bad:
                out.update(result="violated", why=why, model=None, reproduced=True, replay_msg=why)
        except Exception as e:
            out.update(result="error", why=f"{type(e).__name__}: {str(e)[:200]}")
        out["solver_queries"], out["solver_seconds"], out["wall"] = 0, 0.0, time.perf_counter() - t0
        return out
    try:
        if fam in ("stack-mixed", "stack-mixed-x"):
            names = {"a0": (2,), "a1": (2, 2)}

        def once():
            inputs = [E.fresh_array(n, s) for n, s in names.items()]
            return apply_case(case, inputs)

        for (got, want), cond in E.explore_all(once):
            out["paths"] += 1
            if got[0] != want[0]:
                out.update(result="violated", why=f"shape {got[0]} vs reference {want[0]}", model=None)
                break
            d = E.differ_model(cond, [E._t(x) for x in got[1]], [E._t(x) for x in want[1]])
            if d is None:
                continue
            if d[0] == "unknown":
                out["result"] = "unknown"
                continue
            vals = E.model_to_fractions(d[1], names)
            out.update(result="violated", why="values differ", model={n: [str(x) for x in v.flatten()] for n, v in vals.items()})
            out["reproduced"], out["replay_msg"] = replay_case(case, vals)
            break
    except E.Unsupported as u:
        out.update(result="unsupported", why=str(u))
    except Exception as e:
        out.update(result="error", why=f"{type(e).__name__}: {str(e)[:200]}")
    out["solver_queries"] = E.STATS["queries"] - q0
    out["solver_seconds"] = E.STATS["seconds"] - s0
    out["wall"] = time.perf_counter() - t0
    return out


def replay_case(case, vals):
    """Exact re-run on Fraction arrays, no solver involved."""
    try:
        inputs = [vals[f"a{i}"] for i in range(case[3])]
        got, want = apply_case(case, inputs)
        if got[0] != want[0]:
            return True, f"shape {got[0]} vs {want[0]}"
        diff = [(g, w) for g, w in zip(got[1], want[1]) if g != w]
        if diff:
            return True, f"got {diff[0][0]} want {diff[0][1]}"
        return False, "equal on the model's values"
    except E.Unsupported as u:
        return None, f"not replayable exactly: {u}"
    except Exception as e:
        return False, f"replay raised {type(e).__name__}: {e}"


def _plain(case):
    return [list(map(list, c)) if isinstance(c, tuple) and c and isinstance(c[0], tuple) else (list(c) if isinstance(c, tuple) else c) for c in case]


class Backends(Harness):
    name = "backends-symreal"
    engine = "E3-symreal"
    properties = ("C15",)
    rule = "one obligation = (backend, operation, #arguments, shape, axis/indices | partition); decided by z3 for all real element values on every comparison path; non-trivial = >=2 elements involved"
    assumptions = ["exact real arithmetic (rounding is outside the claim)", "sqrt is an uninterpreted function (std compared through congruence)",
                   "a batch of one argument is passed through unchanged, as fluent's _batch_transform does",
                   "xarray reductions are called with skipna=False (object dtype)", "partitions are ordered (contiguous); arbitrary set partitions additionally for the symmetric reductions"]
    outside = ["machine dtypes: only sampled on fixed mixed-dtype witnesses by concrete execution (family 'dtype'), not decided by the solver; NaN handling", "the FieldList backend", "more arguments / larger shapes than the bound"]

    def functions(self):
        return [backends.Backend, b_arrayapi.ArrayAPIBackend, b_arrayapi._xp_multi_args, b_xarray.XArrayBackend, backends.array_module, backends.batchable]

    def custom_run(self, tier, seed, jobs) -> HarnessResult:
        t0 = time.perf_counter()
        hr = HarnessResult(name=self.name, engine=self.engine)
        hr.rule, hr.assumptions, hr.outside = self.rule, list(self.assumptions), list(self.outside)
        hr.functions = repo_env.describe(self.functions())
        cases, marked = case_list(tier)
        hr.bounds = {"arguments": "1..4" if tier == "quick" else "1..6", "shapes": "(2,), (2,2), (2,1), (1,2)" if tier == "quick" else "(2,), (2,2), (2,1), (1,2), (3,), (2,3), (1,1)",
                     "batch_partitions_of": "2..4 arguments" if tier == "quick" else "2..5 arguments", "marked_batchable_in_code": marked, "solver_timeout_ms": E.TIMEOUT_MS}
        ctx = mp.get_context("fork")
        with ctx.Pool(min(jobs, 16)) as pool:
            results = pool.map(run_case, cases, chunksize=4)
        hr.evaluations = len(results)
        seen = set()
        for r in results:
            hr.solver_queries += r["solver_queries"]
            hr.solver_seconds += r["solver_seconds"]
            if r["result"] == "holds":
                seen.add(str(r["case"]))
            elif r["result"] in ("unknown", "unsupported"):
                hr.inconclusive.append({"case": r["case"], "reason": r["result"], "why": r.get("why", "")})
            elif r["result"] == "error":
                hr.crashes.append({"fatal": f"{r['case']}: {r['why']}"})
            else:
                c = r["case"]
                key = f"{c[2]}-marked-batchable-but-is-not" if c[1] == "batch" else f"{c[0]}-{c[2]}-differs-from-reference"
                hr.failures.append({"key": key, "msg": f"{c}: {r['why']} model={r.get('model')} ({r.get('replay_msg', '')})",
                                    "reproduced": r.get("reproduced", True) if r.get("model") is not None else True, "replay_msg": r.get("replay_msg", ""),
                                    "replay": {"harness": self.name, "case": c, "model": r.get("model")}})
        hr.nontrivial = len(seen)
        hr.exhaustive = not hr.inconclusive and not hr.crashes
        hr.samples = [{"case": r["case"], "result": r["result"], "paths": r["paths"]} for r in results[:: max(1, len(results) // 4)]][:4]
        hr.detail = {"obligations": len(results), "holds": sum(1 for r in results if r["result"] == "holds"), "comparison_paths": sum(r["paths"] for r in results)}
        hr.wall_s = time.perf_counter() - t0
        return hr

    def replay(self, rep):
        case = rep["case"]
        if case[1] == "dtype":
            bad, why = run_dtype_case((case[0], case[1], case[2], case[3], tuple(case[4]), tuple(case[5])))
            return bool(bad), rep.get("key", ""), why
        case = [tuple(tuple(p) for p in c) if isinstance(c, list) and c and isinstance(c[0], list) else (tuple(c) if isinstance(c, list) and i == 4 else c) for i, c in enumerate(case)]
        shape = tuple(case[4])
        vals = {}
        if not rep.get("model"):
            # a difference in shape does not depend on the values: any will do
            shapes = {"a0": (2,), "a1": (2, 2)} if case[1] == "stack-mixed" else {f"a{i}": shape for i in range(case[3])}
            for n, sh in shapes.items():
                a = np.empty(int(np.prod(sh)), dtype=object)
                for i in range(a.size):
                    a[i] = Fraction(i + 1 + 10 * int(n[1:]))
                vals[n] = a.reshape(sh)
        for n, flat in (rep.get("model") or {}).items():
            a = np.empty(len(flat), dtype=object)
            for i, x in enumerate(flat):
                a[i] = Fraction(x)
            vals[n] = a.reshape((2, 2) if (case[1] == "stack-mixed" and n == "a1") else shape)
        ok, msg = replay_case(case, vals)
        return bool(ok), rep.get("key", ""), msg


register(Backends())
