"""In-process stand-in for pyzmq (pyzmq cannot be imported under CrossHair's tracer).

Contract assumed (part of every claim that uses it):
* a PUSH socket connected to an address delivers multipart frames into the FIFO of that address;
* a PULL socket bound to an address reads that FIFO in order;
* Poller.poll reports a socket readable iff its FIFO is non-empty (the timeout is ignored: a poll on an
  empty queue returns immediately with nothing, i.e. "the timeout elapsed");
* loss / duplication / delay happen only where a harness installs ``NET.fault`` .
"""

from __future__ import annotations

from collections import deque

PUSH, PULL, REQ, REP, POLLIN, LINGER = 8, 7, 3, 4, 1, 17


class Network:
    def __init__(self):
        self.reset()

    def reset(self):
        self.queues: dict[str, deque] = {}
        self.fault = None  # callable(address, frames) -> list of frames-lists to enqueue now
        self.sent_log: list = []
        self.on_poll = None  # callable(address) invoked when a poll finds nothing (lets a harness advance the world)
        self.req_handler = None  # callable(address, request bytes) -> response bytes, for REQ sockets

    def q(self, address: str) -> deque:
        if address not in self.queues:
            self.queues[address] = deque()
        return self.queues[address]

    def deliver(self, address: str, frames: list[bytes]) -> None:
        self.sent_log.append((address, frames))
        if self.fault is not None:
            for f in self.fault(address, frames):
                self.q(address).append(f)
        else:
            self.q(address).append(frames)


NET = Network()


class Socket:
    def __init__(self, kind):
        self.kind = kind
        self.address = None
        self.closed = False

    def set(self, *a, **k):
        pass

    setsockopt = set

    def connect(self, address):
        self.address = address

    def bind(self, address):
        self.address = address
        NET.q(address)

    def send(self, b, *a, **k):
        if self.kind == REQ and NET.req_handler is not None:
            self._resp = NET.req_handler(self.address, bytes(b))  # the peer answers synchronously
            return
        NET.deliver(self.address, [bytes(b)])

    def send_multipart(self, frames, *a, **k):
        NET.deliver(self.address, [bytes(f) for f in frames])

    def recv(self, *a, **k):
        if self.kind == REQ and getattr(self, "_resp", None) is not None:
            r, self._resp = self._resp, None
            return r
        return self.recv_multipart()[0]

    def recv_multipart(self, *a, **k):
        q = NET.q(self.address)
        if not q:
            raise Again("recv on empty fake socket")
        return list(q.popleft())

    def poll(self, timeout=None, flags=POLLIN):
        if self.kind == REQ:
            return POLLIN if getattr(self, "_resp", None) is not None else 0
        return POLLIN if NET.q(self.address) else 0

    def close(self, *a, **k):
        self.closed = True


class Again(Exception):
    pass


class ZMQError(Exception):
    pass


class Context:
    def socket(self, kind):
        return Socket(kind)

    def term(self):
        pass

    destroy = term


class Poller:
    def __init__(self):
        self.socks = []

    def register(self, socket, flags=POLLIN):
        self.socks.append(socket)

    def unregister(self, socket):
        self.socks = [s for s in self.socks if s is not socket]

    def poll(self, timeout=None):
        ready = [(s, POLLIN) for s in self.socks if NET.q(s.address)]
        if not ready and NET.on_poll is not None and (timeout is None or timeout > 0):  # a zero-timeout poll does not block: nothing else gets to run
            for s in self.socks:
                NET.on_poll(s.address)
            ready = [(s, POLLIN) for s in self.socks if NET.q(s.address)]
        return ready


def _bind_to_random_port(self, base_addr, *a, **k):
    Socket._port = getattr(Socket, "_port", 40000) + 1
    self.bind(f"{base_addr}:{Socket._port}")
    return Socket._port


Socket.bind_to_random_port = _bind_to_random_port


def __getattr__(name):
    """Any other zmq constant the code may start to use (socket options, flags): an opaque integer, so that using one is not an error here."""
    if name.isupper():
        return 1000 + sum(map(ord, name)) % 1000
    raise AttributeError(name)
