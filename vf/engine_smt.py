"""E2 -- translation of cascade/shm/api.py (parsed from the current tree at every run) into z3 terms.

Python int -> z3 Int (unbounded); bytes / memoryview -> Seq(Int) with every element in 0..255;
ASCII str -> Seq(Int) (elements < 128 is a *condition* of encode/decode, not an assumption).

``n.to_bytes(k, "big")`` = k fresh digits d_i in 0..255 with n == sum d_i*256^(k-1-i); the side condition
0 <= n < 256^k is the *acceptance* condition of the encoder (Python raises OverflowError otherwise).
``int.from_bytes(b, "big")`` on a k-element sequence is the same sum; that the sequence really has k elements is
recorded as a decoder obligation that the round-trip query has to establish.

Anything outside the supported syntax raises Untranslatable (-> harness error, never a pass).
"""

from __future__ import annotations

import ast
import os
from dataclasses import dataclass, field

import z3


class Untranslatable(Exception):
    pass


ISeq = z3.SeqSort(z3.IntSort())


@dataclass
class VInt:
    t: z3.ArithRef


@dataclass
class VBytes:
    t: z3.SeqRef


@dataclass
class VStr:
    t: z3.SeqRef


@dataclass
class VEnum:
    enum: str
    t: z3.ArithRef


@dataclass
class VTuple:
    items: list


@dataclass
class VObj:
    cls: str
    fields: dict


@dataclass
class VClass:
    name: str


@dataclass
class VConst:
    v: object


@dataclass
class VBool:
    t: object


class Ctx:
    """Collects definitional constraints, acceptance conditions and decoder obligations."""

    def __init__(self):
        self.defs: list = []  # always-true definitions of fresh variables (given accept)
        self.accept: list = []  # conditions under which the code does not raise
        self.n = 0

    def fresh(self, name):
        self.n += 1
        return z3.Int(f"{name}!{self.n}")


class ApiModel:
    def __init__(self, path: str):
        self.path = path
        self.src = open(path).read()
        self.tree = ast.parse(self.src)
        self.funcs: dict[str, ast.FunctionDef] = {}
        self.classes: dict[str, ast.ClassDef] = {}
        self.enums: dict[str, list[int]] = {}
        self.b2c: dict[int, str] = {}
        self.consts: dict[str, int] = {}  # module-level integer constants
        for node in self.tree.body:
            if isinstance(node, ast.FunctionDef):
                self.funcs[node.name] = node
            elif isinstance(node, ast.ClassDef):
                self.classes[node.name] = node
            elif isinstance(node, (ast.Assign, ast.AnnAssign)):
                tgt = node.targets[0] if isinstance(node, ast.Assign) else node.target
                if isinstance(tgt, ast.Name) and tgt.id == "b2c":
                    if not isinstance(node.value, ast.Dict):
                        raise Untranslatable("b2c is not a dict literal")
                    for k, v in zip(node.value.keys, node.value.values):
                        if not (isinstance(k, ast.Constant) and isinstance(k.value, bytes) and len(k.value) == 1 and isinstance(v, ast.Name)):
                            raise Untranslatable("b2c entry is not <1-byte literal>: <ClassName>")
                        if k.value[0] in self.b2c:
                            raise Untranslatable(f"duplicate tag {k.value!r} in b2c")
                        self.b2c[k.value[0]] = v.id
                if isinstance(tgt, ast.Name) and tgt.id == "c2b":
                    self.c2b_src = ast.unparse(node.value)
                if isinstance(tgt, ast.Name) and node.value is not None:
                    try:
                        v = ast.literal_eval(node.value)
                    except Exception:
                        v = None
                    if isinstance(v, int) and not isinstance(v, bool):
                        self.consts[tgt.id] = v
        if not self.b2c:
            raise Untranslatable("b2c table not found")
        for name, c in self.classes.items():
            bases = [ast.unparse(b) for b in c.bases]
            if "Enum" in bases:
                vals, auto = [], 0
                for st in c.body:
                    if isinstance(st, ast.Assign) and isinstance(st.targets[0], ast.Name):
                        if isinstance(st.value, ast.Call) and ast.unparse(st.value.func) == "auto":
                            auto += 1
                            vals.append(auto)
                        elif isinstance(st.value, ast.Constant) and isinstance(st.value.value, int):
                            auto = st.value.value
                            vals.append(auto)
                        else:
                            raise Untranslatable(f"enum member of {name}")
                self.enums[name] = vals

    # ---- class helpers -------------------------------------------------------------------
    def fields_of(self, cname: str) -> list[tuple[str, str]]:
        out = []
        c = self.classes[cname]
        for b in c.bases:
            bn = ast.unparse(b)
            if bn in self.classes:
                out.extend(self.fields_of(bn))
        for st in c.body:
            if isinstance(st, ast.AnnAssign) and isinstance(st.target, ast.Name):
                out.append((st.target.id, ast.unparse(st.annotation)))
        return out

    def method(self, cname: str, mname: str) -> ast.FunctionDef:
        c = self.classes[cname]
        for st in c.body:
            if isinstance(st, ast.FunctionDef) and st.name == mname:
                return st
        for b in c.bases:
            bn = ast.unparse(b)
            if bn in self.classes:
                try:
                    return self.method(bn, mname)
                except KeyError:
                    pass
        raise KeyError(f"{cname}.{mname}")

    # ---- evaluator -----------------------------------------------------------------------
    def call_function(self, fn: ast.FunctionDef, args: list, ctx: Ctx, cls_name: str | None = None):
        env = {}
        params = [a.arg for a in fn.args.args]
        if len(params) != len(args):
            raise Untranslatable(f"arity of {fn.name}")
        for p, a in zip(params, args):
            env[p] = a
        for st in fn.body:
            if isinstance(st, ast.Expr) and isinstance(st.value, ast.Constant):
                continue
            if isinstance(st, ast.Return):
                return self.ev(st.value, env, ctx)
            if isinstance(st, ast.Assign) and len(st.targets) == 1:
                self.assign(st.targets[0], self.ev(st.value, env, ctx), env)
                continue
            if isinstance(st, ast.AnnAssign) and st.value is not None:
                self.assign(st.target, self.ev(st.value, env, ctx), env)
                continue
            if isinstance(st, ast.If) and not st.orelse and len(st.body) == 1 and isinstance(st.body[0], ast.Raise):
                # `if <cond>: raise ...` -- the value is rejected exactly when cond holds
                c = self.ev(st.test, env, ctx)
                if not isinstance(c, VBool):
                    raise Untranslatable(f"guard {ast.unparse(st.test)[:60]!r}")
                ctx.accept.append(z3.Not(c.t))
                continue
            raise Untranslatable(f"statement {ast.unparse(st)[:60]!r} in {fn.name}")
        return VConst(None)

    def assign(self, tgt, val, env):
        if isinstance(tgt, ast.Name):
            env[tgt.id] = val
        elif isinstance(tgt, ast.Tuple) and isinstance(val, VTuple) and len(tgt.elts) == len(val.items):
            for t, v in zip(tgt.elts, val.items):
                self.assign(t, v, env)
        else:
            raise Untranslatable(f"assignment target {ast.unparse(tgt)}")

    def ev(self, e, env, ctx: Ctx):
        if isinstance(e, ast.Constant):
            v = e.value
            if isinstance(v, bool) or v is None:
                return VConst(v)
            if isinstance(v, int):
                return VInt(z3.IntVal(v))
            if isinstance(v, bytes):
                return VBytes(seq_of(list(v)))
            if isinstance(v, str):
                return VConst(v)
            raise Untranslatable(f"constant {v!r}")
        if isinstance(e, ast.Name):
            if e.id in env:
                return env[e.id]
            if e.id in self.classes:
                return VClass(e.id)
            if e.id in ("int", "str", "len", "memoryview", "bytes"):
                return VConst(e.id)
            if e.id in self.funcs:
                return VConst(("func", e.id))
            if e.id in ("b2c", "c2b"):
                return VConst(e.id)
            if e.id in self.consts:
                return VInt(z3.IntVal(self.consts[e.id]))
            raise Untranslatable(f"name {e.id}")
        if isinstance(e, ast.Tuple):
            return VTuple([self.ev(x, env, ctx) for x in e.elts])
        if isinstance(e, ast.Compare) and len(e.ops) == 1:
            l, r = self.ev(e.left, env, ctx), self.ev(e.comparators[0], env, ctx)
            if isinstance(l, VInt) and isinstance(r, VInt):
                op = e.ops[0]
                table = {ast.Gt: l.t > r.t, ast.GtE: l.t >= r.t, ast.Lt: l.t < r.t, ast.LtE: l.t <= r.t, ast.Eq: l.t == r.t, ast.NotEq: l.t != r.t}
                if type(op) in table:
                    return VBool(table[type(op)])
            raise Untranslatable(f"comparison {ast.unparse(e)[:60]!r}")
        if isinstance(e, ast.Attribute):
            base = self.ev(e.value, env, ctx)
            if isinstance(base, VObj):
                if e.attr in base.fields:
                    return base.fields[e.attr]
                raise Untranslatable(f"attribute {e.attr} of {base.cls}")
            if isinstance(base, VEnum) and e.attr == "value":
                return VInt(base.t)
            raise Untranslatable(f"attribute {ast.unparse(e)}")
        if isinstance(e, ast.BinOp) and isinstance(e.op, ast.Add):
            l, r = self.ev(e.left, env, ctx), self.ev(e.right, env, ctx)
            if isinstance(l, VBytes) and isinstance(r, VBytes):
                return VBytes(z3.Concat(l.t, r.t))
            if isinstance(l, VInt) and isinstance(r, VInt):
                return VInt(l.t + r.t)
            raise Untranslatable(f"+ on {type(l).__name__},{type(r).__name__}")
        if isinstance(e, ast.Subscript):
            base = self.ev(e.value, env, ctx)
            if isinstance(base, VConst) and base.v == "b2c":
                k = self.ev(e.slice, env, ctx)
                if not isinstance(k, VBytes):
                    raise Untranslatable("b2c key")
                return VConst(("b2c-lookup", k.t))
            if isinstance(base, VConst) and base.v == "c2b":
                k = self.ev(e.slice, env, ctx)
                if isinstance(k, VClass):
                    tags = [t for t, c in self.b2c.items() if c == k.name]
                    if len(tags) != 1:
                        raise Untranslatable(f"class {k.name} has {len(tags)} tags")
                    return VBytes(seq_of([tags[0]]))
                raise Untranslatable("c2b key")
            if not isinstance(base, VBytes):
                raise Untranslatable(f"subscript of {type(base).__name__}")
            sl = e.slice
            if not isinstance(sl, ast.Slice) or sl.step is not None:
                raise Untranslatable("only b[a:c] slices")
            lo = self.ev(sl.lower, env, ctx).t if sl.lower is not None else z3.IntVal(0)
            n = z3.Length(base.t)
            hi = self.ev(sl.upper, env, ctx).t if sl.upper is not None else n
            # python clamps; for 0 <= lo this is extract(s, lo, hi-lo) which z3 clamps the same way
            ctx.accept.append(lo >= 0)
            ctx.accept.append(hi >= lo)
            return VBytes(z3.SubSeq(base.t, lo, hi - lo))
        if isinstance(e, ast.Call):
            return self.ev_call(e, env, ctx)
        raise Untranslatable(f"expression {ast.unparse(e)[:60]!r}")

    def ev_call(self, e: ast.Call, env, ctx: Ctx):
        f = e.func
        # method calls
        if isinstance(f, ast.Attribute):
            # int.from_bytes(x, "big")
            if isinstance(f.value, ast.Name) and f.value.id == "int" and f.attr == "from_bytes":
                b = self.ev(e.args[0], env, ctx)
                self._big(e.args[1:], e.keywords)
                if not isinstance(b, VBytes):
                    raise Untranslatable("from_bytes arg")
                k = self._static_len(e.args[0], env, ctx)
                ctx.accept.append(z3.Length(b.t) == k)  # decoder obligation: slice has full width
                return VInt(sum((b.t[i] * (256 ** (k - 1 - i)) for i in range(k)), z3.IntVal(0)))
            if f.attr == "deser" and isinstance(f.value, (ast.Subscript, ast.Name)):
                tgt = self.ev(f.value, env, ctx)
                arg = self.ev(e.args[0], env, ctx)
                if isinstance(tgt, VConst) and isinstance(tgt.v, tuple) and tgt.v[0] == "b2c-lookup":
                    key = z3.simplify(tgt.v[1])
                    tag = concrete_seq(key)
                    if tag is None or len(tag) != 1:
                        raise Untranslatable("b2c dispatch on a non-concrete tag")
                    if tag[0] not in self.b2c:
                        ctx.accept.append(z3.BoolVal(False))
                        return VConst(None)
                    cname = self.b2c[tag[0]]
                elif isinstance(tgt, VClass):
                    cname = tgt.name
                else:
                    raise Untranslatable("deser target")
                return self.call_function(self.method(cname, "deser"), [VClass(cname), arg], ctx)
            recv = self.ev(f.value, env, ctx)
            if f.attr == "to_bytes" and isinstance(recv, VInt):
                kk = self.ev(e.args[0], env, ctx)
                self._big(e.args[1:], e.keywords)
                k = z3.simplify(kk.t).as_long()
                ds = [ctx.fresh("d") for _ in range(k)]
                for d in ds:
                    ctx.defs.append(z3.And(d >= 0, d <= 255))
                ctx.defs.append(recv.t == sum((d * (256 ** (k - 1 - i)) for i, d in enumerate(ds)), z3.IntVal(0)))
                ctx.accept.append(z3.And(recv.t >= 0, recv.t < 256**k))
                return VBytes(z3.Concat(*[z3.Unit(d) for d in ds]) if k > 1 else z3.Unit(ds[0]))
            if f.attr == "encode" and isinstance(recv, VStr):
                if not (len(e.args) == 1 and isinstance(e.args[0], ast.Constant) and e.args[0].value == "ascii"):
                    raise Untranslatable("encode codec")
                ctx.accept.append(all_lt(recv.t, 128, ctx))
                return VBytes(recv.t)
            if f.attr == "ser" and isinstance(recv, VObj):
                return self.call_function(self.method(recv.cls, "ser"), [recv], ctx)
            raise Untranslatable(f"method {ast.unparse(f)}")
        if isinstance(f, ast.Name):
            if f.id == "len":
                a = self.ev(e.args[0], env, ctx)
                if isinstance(a, (VStr, VBytes)):
                    return VInt(z3.Length(a.t))
                raise Untranslatable("len arg")
            if f.id == "memoryview":
                return self.ev(e.args[0], env, ctx)
            if f.id == "str":
                a = self.ev(e.args[0], env, ctx)
                if not (isinstance(a, VBytes) and len(e.args) == 2 and isinstance(e.args[1], ast.Constant) and e.args[1].value == "ascii"):
                    raise Untranslatable("str(...) form")
                ctx.accept.append(all_lt(a.t, 128, ctx))
                return VStr(a.t)
            if f.id == "type":
                a = self.ev(e.args[0], env, ctx)
                if isinstance(a, VObj):
                    return VClass(a.cls)
                raise Untranslatable("type() arg")
            if f.id in self.funcs:
                args = [self.ev(a, env, ctx) for a in e.args]
                return self.call_function(self.funcs[f.id], args, ctx)
            if f.id in self.enums:
                a = self.ev(e.args[0], env, ctx)
                ctx.accept.append(z3.Or(*[a.t == v for v in self.enums[f.id]]))
                return VEnum(f.id, a.t)
            if f.id == "cls" or f.id in self.classes:
                cname = env["cls"].name if f.id == "cls" else f.id
                if e.args:
                    raise Untranslatable("positional constructor args")
                fields = {kw.arg: self.ev(kw.value, env, ctx) for kw in e.keywords}
                declared = [n for n, _ in self.fields_of(cname)]
                if sorted(fields) != sorted(declared):
                    raise Untranslatable(f"constructor of {cname} given {sorted(fields)} for fields {declared}")
                return VObj(cname, fields)
        raise Untranslatable(f"call {ast.unparse(e)[:60]!r}")

    def _big(self, args, keywords):
        vals = [a.value for a in args if isinstance(a, ast.Constant)] + [k.value.value for k in keywords if isinstance(k.value, ast.Constant)]
        if vals != ["big"]:
            raise Untranslatable("byteorder must be the literal 'big'")

    def _static_len(self, arg, env, ctx) -> int:
        """int.from_bytes(b[:k]) / (b[a:a+k]) -- the width k must be a literal."""
        if isinstance(arg, ast.Subscript) and isinstance(arg.slice, ast.Slice):
            sl = arg.slice
            if sl.lower is None and isinstance(sl.upper, ast.Constant):
                return int(sl.upper.value)
        raise Untranslatable(f"from_bytes over {ast.unparse(arg)} (width not literal)")


def seq_of(ints: list[int]):
    if not ints:
        return z3.Empty(ISeq)
    units = [z3.Unit(z3.IntVal(i)) for i in ints]
    return units[0] if len(units) == 1 else z3.Concat(*units)


def concrete_seq(t):
    """Concrete python list of a simplified sequence term, else None."""
    t = z3.simplify(t)
    out = []

    def walk(x):
        if z3.is_app(x):
            k = x.decl().kind()
            if k == z3.Z3_OP_SEQ_UNIT:
                v = z3.simplify(x.arg(0))
                if z3.is_int_value(v):
                    out.append(v.as_long())
                    return True
                return False
            if k == z3.Z3_OP_SEQ_CONCAT:
                return all(walk(x.arg(i)) for i in range(x.num_args()))
            if k == z3.Z3_OP_SEQ_EMPTY:
                return True
        return False

    return out if walk(t) else None


IS_ASCII = z3.Function("is_ascii", ISeq, z3.BoolSort())


def all_lt(seq, bound, ctx: Ctx):
    """'every element is an ASCII code' as an uninterpreted predicate: a round-trip proved with it holds for every
    interpretation (in particular the real one); acceptance is trivial for strings assumed ASCII."""
    if bound != 128:
        raise Untranslatable("only the ascii codec is modelled")
    return IS_ASCII(seq)
