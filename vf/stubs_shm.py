"""Stubs for the shared-memory server side (cascade.shm.dataset / cascade.shm.disk).

Contracts assumed:
* FakeSharedMemory: POSIX name semantics -- create-existing -> FileExistsError, open/unlink-missing ->
  FileNotFoundError, unlink removes the name.
* content model: a segment / file holds a ``Buf`` = (declared size, first CONTENT bytes); a fake file ``read``
  returns the stored Buf in a single chunk and then an empty one.
* DeferredPool: a submitted job runs atomically at a later point chosen by the harness.
* clock: ``time.time_ns`` returns the harness' current instant (non-decreasing, chosen by the solver).
* uuid: fresh reader ids are unique.
"""

from __future__ import annotations

import threading
import types


CHUNK = 4096  # Disk._page_in copies in chunks of this size
NCHUNKS = 3


class Chunk:
    """One chunk read from a spill file: CHUNK bytes standing behind one (possibly symbolic) token."""

    def __init__(self, token):
        self.token = token

    def __len__(self):
        return CHUNK


class Buf:
    """Segment/file content: declared size and NCHUNKS chunk tokens (ints, possibly symbolic), i.e. a dataset is modelled
    as three 4096-byte blocks; `data[k]` stands for the bytes at offset k*CHUNK."""

    def __init__(self, size, data=None):
        self.size = size
        self.data = list(data) if data is not None else [0] * NCHUNKS
        self.corrupt = False

    def __len__(self):
        return 0 if self is EMPTY else CHUNK * NCHUNKS

    def __getitem__(self, sl):
        return Buf(self.size, self.data)

    def __setitem__(self, sl, value):
        if isinstance(value, Buf):
            self.data = list(value.data)
        elif isinstance(value, Chunk):
            start = sl.start or 0
            if start % CHUNK != 0 or not (0 <= start // CHUNK < NCHUNKS) or (sl.stop - start) != CHUNK:
                self.corrupt = True  # a chunk written at a wrong offset
            else:
                self.data[start // CHUNK] = value.token
        else:
            raise TypeError("unexpected write into fake segment")


EMPTY = Buf(0, [])


class World:
    """Ground truth shared by the fakes of one harness run."""

    def __init__(self):
        self.segs: dict[str, Buf] = {}
        self.files: dict[str, Buf] = {}
        self.now = 0
        self.boot_offset = 0
        self.uid = 0
        self.unlinked: list[str] = []
        self.fail_file_io: set[str] = set()  # paths whose open() raises OSError
        self.on_unlink = None
        self.preempt = None  # callable(point) invoked before each shared-memory / file operation of a disk job


WORLD = World()


def reset_world() -> World:
    global WORLD
    WORLD.__init__()
    return WORLD


def _point(what):
    if WORLD.preempt is not None:
        WORLD.preempt(what)


class FakeSharedMemory:
    def __init__(self, name=None, create=False, size=0, **kw):
        _point("shm-open")
        w = WORLD
        if create:
            if name in w.segs:
                raise FileExistsError(name)
            w.segs[name] = Buf(size)
        else:
            if name not in w.segs:
                raise FileNotFoundError(name)
        self._name = name
        self.name = name

    @property
    def buf(self):
        return WORLD.segs[self._name]

    @property
    def size(self):
        return WORLD.segs[self._name].size

    def close(self):
        pass

    def unlink(self):
        _point("shm-unlink")
        w = WORLD
        if self._name not in w.segs:
            raise FileNotFoundError(self._name)
        if w.on_unlink is not None:
            w.on_unlink(self._name)
        del w.segs[self._name]
        w.unlinked.append(self._name)


class _FakeFile:
    def __init__(self, path, mode):
        self.path, self.mode = path, mode
        self.pos = 0

    def __enter__(self):
        return self

    def __exit__(self, *a):
        return False

    def write(self, b):
        WORLD.files[self.path] = Buf(b.size, b.data)

    def read(self, n=-1):
        f = WORLD.files[self.path]
        if n is None or n < 0:
            if self.pos:
                return EMPTY
            self.pos = NCHUNKS
            return f
        if n != CHUNK:
            raise OSError(f"fake file supports chunked reads of {CHUNK} bytes only (asked for {n})")
        if self.pos >= NCHUNKS:
            return EMPTY
        c = Chunk(f.data[self.pos])
        self.pos += 1
        return c


def fake_open(path, mode="r", *a, **k):
    _point("file-open")
    if path in WORLD.fail_file_io:
        raise OSError(f"injected I/O failure on {path}")
    if "r" in mode and path not in WORLD.files:
        raise FileNotFoundError(path)
    return _FakeFile(path, mode)


class DeferredPool:
    def __init__(self, *a, **k):
        self.jobs: list = []

    def submit(self, fn, *args, **kwargs):
        self.jobs.append((fn, args, kwargs))
        return None

    def run(self, i: int):
        fn, args, kwargs = self.jobs.pop(i)
        return fn(*args, **kwargs)

    def shutdown(self, *a, **k):
        pass


_installed = False


def install():
    """Patch cascade.shm.dataset / cascade.shm.disk module globals (idempotent)."""
    global _installed
    import cascade.shm.dataset as dataset
    import cascade.shm.disk as disk

    if _installed:
        return dataset, disk
    _installed = True
    dataset.SharedMemory = FakeSharedMemory
    disk.SharedMemory = FakeSharedMemory
    disk.open = fake_open  # module global shadows the builtin inside disk.py
    if hasattr(disk, "os"):
        # existence / removal queries have to agree with the in-memory files
        import os as _real_os

        class _P:
            def __getattr__(self, n):
                return getattr(_real_os.path, n)

            @staticmethod
            def exists(path):
                return path in WORLD.files if str(path).startswith("/fake/") else _real_os.path.exists(path)

            isfile = exists

            @staticmethod
            def getsize(path):
                if str(path).startswith("/fake/"):
                    if path not in WORLD.files:
                        raise FileNotFoundError(path)
                    return WORLD.files[path].size
                return _real_os.path.getsize(path)

        class _OS:
            path = _P()

            def __getattr__(self, n):
                return getattr(_real_os, n)

            @staticmethod
            def remove(path):
                if str(path).startswith("/fake/"):
                    if path not in WORLD.files:
                        raise FileNotFoundError(path)
                    del WORLD.files[path]
                else:
                    _real_os.remove(path)

            unlink = remove

            @staticmethod
            def stat(path, *a, **k):
                if str(path).startswith("/fake/"):
                    if path not in WORLD.files:
                        raise FileNotFoundError(path)
                    return types.SimpleNamespace(st_size=WORLD.files[path].size, st_mtime=0, st_mtime_ns=0)
                return _real_os.stat(path, *a, **k)

        disk.os = _OS()
    disk.multiprocessing = types.SimpleNamespace(
        resource_tracker=types.SimpleNamespace(unregister=lambda *a, **k: None)
    )
    # wall clock and monotonic clock are different clocks: they differ by an arbitrary (large) boot offset
    dataset.time = types.SimpleNamespace(time_ns=lambda: WORLD.now, monotonic_ns=lambda: WORLD.now - WORLD.boot_offset,
                                         time=lambda: WORLD.now / 1e9)

    class _U:
        def __init__(self, n):
            self.n = n

        def __str__(self):
            return f"r{self.n:07d}-xxxx"

    def uuid4():
        WORLD.uid += 1
        return _U(WORLD.uid)

    dataset.uuid = types.SimpleNamespace(uuid4=uuid4)
    from vf import repo_env

    repo_env.STUBS_IN_FORCE.extend(
        [
            "FakeSharedMemory registry replaces multiprocessing.shared_memory.SharedMemory (POSIX name semantics)",
            "in-memory open() for cascade.shm.disk; content model = (declared size, three 4096-byte chunks each standing behind one token), chunked reads",
            "DeferredPool replaces Disk.readers/writers: a job runs atomically when the harness picks it",
            "clock: cascade.shm.dataset.time.time_ns returns the harness' solver-chosen non-decreasing instant",
            "uuid4 -> unique counter-based reader ids",
        ]
    )
    return dataset, disk


def make_manager(capacity, prefix="p"):
    """A Manager without running __init__ (which shells out to findmnt and creates thread pools)."""
    dataset, disk = install()
    m = dataset.Manager.__new__(dataset.Manager)
    m.datasets = {}
    m.capacity = capacity
    m.free_space = capacity
    m.pageout_all = threading.Lock()
    m.pageout_one = threading.Lock()
    m.pageout_count = 0
    d = disk.Disk.__new__(disk.Disk)
    d.root = types.SimpleNamespace(name="/fake", cleanup=lambda: None)
    d.readers = DeferredPool()
    d.writers = DeferredPool()
    m.disk = d
    m.prefix = prefix
    return m
