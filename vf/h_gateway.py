"""C18 -- gateway: JobRouter + handle_controller + handle_fe; symbolic timestamps, solver-chosen report order."""

from __future__ import annotations

import base64
import itertools
import types

import orjson

from vf import repo_env
from vf.engine_xh import Violation
from vf.runner import Harness, register

repo_env.setup()
import cascade.gateway.client as g_client  # noqa: E402
import cascade.gateway.router as g_router  # noqa: E402
import cascade.gateway.server as g_server  # noqa: E402
import cascade.low.func as l_func  # noqa: E402
from cascade.controller.report import ControllerReport, JobProgressShutdown, JobProgressStarted  # noqa: E402
from cascade.gateway.router import Job, JobRouter  # noqa: E402
from cascade.low.core import DatasetId  # noqa: E402

# the pickle layer of controller reports is replaced by the identity (reports carry symbolic timestamps)
g_server.deserialize = lambda raw: raw
g_router._spawn_subprocess = lambda job_spec, addr, job_id: None
repo_env.STUBS_IN_FORCE.append("gateway.server.deserialize -> identity (pickle is trusted C code); _spawn_subprocess -> no-op")


def fresh(s: str) -> str:
    """An equal but distinct string object, as unpickling a report produces (the pickle layer itself is replaced by identity)."""
    return bytes(s, "utf-8").decode("utf-8") if s else s


BIG = [bytes([k]) * 900_000 + b"\x00\xff" for k in (7, 8, 9, 10, 11)]


class FakePoller:
    def __init__(self):
        self.registered, self.unregistered = [], []

    def register(self, s, flags=None):
        self.registered.append(s)

    def unregister(self, s):
        if s not in self.registered:
            raise KeyError(s)  # what zmq.Poller.unregister does for a socket it does not know
        self.registered.remove(s)
        self.unregistered.append(s)


class Sock:
    def __init__(self):
        self.inbox, self.sent = [], []

    def recv(self):
        return self.inbox.pop(0)

    def send(self, b):
        self.sent.append(b)


def ask(router, req: dict):
    fe = Sock()
    fe.inbox.append(orjson.dumps(req))
    try:
        g_server.handle_fe(fe, router)
    except Exception as e:
        raise Violation("gateway-request-handler-raised", f"{req}: {type(e).__name__}: {e}")
    if len(fe.sent) != 1:
        raise Violation("no-single-response", str(req))
    return orjson.loads(fe.sent[0])


class Gateway(Harness):
    name = "gateway-reports"
    engine = "E1-crosshair"
    properties = ("C18",)
    rule = "one path = (per report: job, kind, duplicate flag) x ordering class of the symbolic timestamps; non-trivial = >=2 progress reports for one job"
    assumptions = ["reports come from known jobs (spawned through the router)", "timestamps are arbitrary non-negative integers (monotonic_ns); all orders and ties are explored symbolically"]
    outside = ["the zmq poller loop of serve()", "spawning the controller subprocess", "pickle of reports"]

    def shards(self, tier):
        R = 3 if tier == "quick" else 4
        J = 2 if tier == "quick" else 3
        out = []
        for kinds in itertools.product(range(3), repeat=R):
            out.append({"kinds": list(kinds), "jobs": J})
        out.append({"kinds": [0, 1], "jobs": J, "ids": True})
        # results are whole datasets: shards in which output "1" is large (its base64 text is longer than a mebi-character)
        out.append({"kinds": [1], "jobs": 1, "big": True})
        out.append({"kinds": [1, 1], "jobs": 2, "big": True})
        if tier == "thorough":
            for kinds in itertools.product(range(2), repeat=5):
                out.append({"kinds": list(kinds), "jobs": 2})
        return out

    def budget(self, tier):
        return 60.0 if tier == "quick" else 600.0

    def bounds(self, tier):
        return {"jobs": 2 if tier == "quick" else 3, "reports": 3 if tier == "quick" else "4 (5 without shutdowns)", "timestamps": "unbounded symbolic integers >= 0", "duplicates": "each report may be delivered twice"}

    def functions(self):
        return [JobRouter.maybe_update, JobRouter.put_result, JobRouter.progress_of, JobRouter.get_result, JobRouter.spawn_job, g_server.handle_controller, g_server.handle_fe,
                g_client.parse_request, g_client.serialize_response, l_func.next_uuid]

    def body(self, ch, params):
        from vf import fakezmq

        fakezmq.NET.reset()
        poller = FakePoller()
        router = JobRouter(poller)
        J = params["jobs"]
        # jobs come into being the way they do in production: through spawn_job (subprocess spawning stubbed)
        class Uid:
            """Like uuid.UUID: not a str, equal only to another Uid of the same value."""

            def __init__(self, v):
                self.v = v

            def __str__(self):
                return self.v

            def __eq__(self, other):
                return isinstance(other, Uid) and other.v == self.v

            def __hash__(self):
                return hash(("uid", self.v))

        ids = iter([f"job{j}" for j in range(J)] + [f"extra{k}" for k in range(8)])
        g_router.uuid = types.SimpleNamespace(uuid4=lambda: Uid(next(ids)))
        spec0 = types.SimpleNamespace(use_slurm=False, hosts=1, workers_per_host=1, envvars={}, benchmark_name="x", job_instance=None)
        jids = [router.spawn_job(spec0) for _ in range(J)]
        socks = {j: router.jobs[j].socket for j in jids}

        class _Inbox:
            def __init__(self, sock):
                self.sock = sock

            def append(self, rep):
                fakezmq.NET.q(self.sock.address).append([rep])

        for j in jids:
            socks[j].inbox = _Inbox(socks[j])
        seen: dict[str, list] = {j: [] for j in jids}  # (timestamp, progress) of progress reports received
        uploaded: dict = {}
        shut = set()
        for i, kind in enumerate(params["kinds"]):
            j = jids[ch.pick(J, f"job{i}")]
            ts = ch.int(f"ts{i}", 0, None)
            if kind == 0:
                rep = ControllerReport(fresh(j), f"{i + 1}0.00", ts, [])
                seen[j].append((ts, f"{i + 1}0.00"))
            elif kind == 1:
                ds = DatasetId("t", ["0", "1"][ch.pick(2, f"ds{i}")])
                val = BIG[i % len(BIG)] if (params.get("big") and ds.output == "1") else bytes([i, 255, 0, 10])
                rep = ControllerReport(fresh(j), None, ts, [(ds, val)])
                uploaded[(j, ds)] = val
            else:
                rep = ControllerReport(fresh(j), fresh(JobProgressShutdown), ts, [])
                shut.add(j)
            copies = 2 if ch.flag(f"dup{i}") else 1
            for _ in range(copies):
                socks[j].inbox.append(rep)
                try:
                    g_server.handle_controller(socks[j], router)
                except Exception as e:
                    raise Violation("controller-report-handler-raised", f"{type(e).__name__}: {e}")
        # ---- oracle over progress -----------------------------------------------------------
        for j in jids:
            shown = router.jobs[j].progress
            if not seen[j]:
                if shown != JobProgressStarted:
                    raise Violation("progress-without-report", f"{j} shows {shown}")
                continue
            newest = [p for (t, p) in seen[j] if all(t >= t2 for (t2, _) in seen[j])]
            if shown not in newest:
                raise Violation("stale-progress-shown", f"{j} shows {shown!r} but the report(s) with the greatest timestamp carry {newest}")
        with ch.untraced():
            # ---- queries through the real front-end handler ---------------------------------
            r = ask(router, {"clazz": "JobProgressRequest", "job_ids": []})
            if r.get("error") is not None or r["progresses"] != {j: router.jobs[j].progress for j in jids}:
                raise Violation("progress-query-wrong", str(r))
            r = ask(router, {"clazz": "JobProgressRequest", "job_ids": ["nope"]})
            if not r.get("error"):
                raise Violation("unknown-job-no-error", str(r))
            r = ask(router, {"clazz": "JobProgressRequest", "job_ids": [jids[0]]})
            if r.get("error") is not None or r["progresses"] != {jids[0]: router.jobs[jids[0]].progress}:
                raise Violation("gateway-stopped-serving-after-bad-request", str(r))
            for j in jids:
                for o in ("0", "1", "zz"):
                    r = ask(router, {"clazz": "ResultRetrievalRequest", "job_id": j, "dataset_id": {"task": "t", "output": o}})
                    key = (j, DatasetId("t", o))
                    if key in uploaded:
                        if r.get("error") is not None or base64.b64decode(r["result"]) != uploaded[key]:
                            raise Violation("result-not-as-uploaded", f"{key}: {r}")
                    else:
                        if not r.get("error") or r.get("result") is not None:
                            raise Violation("result-for-wrong-job-or-dataset", f"{key}: {r}")
            r = ask(router, {"clazz": "ResultRetrievalRequest", "job_id": "nope", "dataset_id": {"task": "t", "output": "0"}})
            if not r.get("error"):
                raise Violation("unknown-job-no-error", str(r))
            # ---- identifiers are never reused --------------------------------------------------
            if not params.get("ids"):
                ch.note("nontrivial", any(len(v) >= 2 for v in seen.values()))
                ch.note("reports", {"kinds": params["kinds"]})
                return
            pool = jids + ["fresh1", jids[0], "fresh2"]
            seq = [pool[ch.pick(len(pool), f"uuid{k}")] for k in range(2)] + ["fresh3", "fresh4"]
            it = iter(seq)
            g_router.uuid = types.SimpleNamespace(uuid4=lambda: Uid(next(it)))
            before = {j: (router.jobs[j].progress, dict(router.jobs[j].results)) for j in jids}
            spec = types.SimpleNamespace(use_slurm=False, hosts=1, workers_per_host=1, envvars={}, benchmark_name="x", job_instance=None)
            new1 = router.spawn_job(spec)
            new2 = router.spawn_job(spec)
            if new1 in jids or new2 in jids or new1 == new2:
                raise Violation("job-id-reused", f"{new1}, {new2}")
            for j in jids:
                if (router.jobs[j].progress, dict(router.jobs[j].results)) != before[j]:
                    raise Violation("spawn-disturbed-other-job", j)
            for j in shut:
                if socks[j] not in poller.unregistered:
                    raise Violation("shutdown-not-unregistered", j)
        ch.note("nontrivial", any(len(v) >= 2 for v in seen.values()))
        ch.note("reports", {"kinds": params["kinds"]})


register(Gateway())
