"""C07 / C09 (client side) -- the real cascade.shm.client against the real LocalServer dispatch and Manager over an
in-memory datagram socket: bytes and decoding function read under a key equal what was written, for custom decoding
functions as well; conflicts, waits and purges are reported to the caller."""

from __future__ import annotations

import importlib

import types

from vf import repo_env
from vf.engine_xh import Violation, deadline
from vf.runner import Harness, register

repo_env.setup()
from vf import stubs_shm  # noqa: E402

dataset, disk = stubs_shm.install()
import cascade.shm.api as api  # noqa: E402
import cascade.shm.client as client  # noqa: E402
import cascade.shm.server as server  # noqa: E402

SEGS: dict[str, bytearray] = {}


class RealisticSharedMemory:
    """bytearray-backed segments with POSIX name semantics (shared by the client and the server side of this harness)."""

    def __init__(self, name=None, create=False, size=0, **kw):
        if create:
            if name in SEGS:
                raise FileExistsError(name)
            if size <= 0:
                raise ValueError("size must be positive")
            SEGS[name] = bytearray(size)
        elif name not in SEGS:
            raise FileNotFoundError(name)
        self._name = self.name = name

    @property
    def buf(self):
        return memoryview(SEGS[self._name])

    def close(self):
        pass

    def unlink(self):
        if self._name not in SEGS:
            raise FileNotFoundError(self._name)
        del SEGS[self._name]


class Net:
    """socket module stand-in for the client: every datagram is answered by one dispatch of the real server loop."""

    AF_INET = SOCK_DGRAM = 0
    timeout = TimeoutError  # socket.timeout
    error = OSError

    def __init__(self, srv):
        self.srv = srv

    def socket(self, *a):
        net = self

        class S:
            def connect(self, addr):
                pass

            def send(self, b):
                if getattr(net, "dead", False):
                    self.resp = None  # a datagram to a closed port is sent without complaint; the ICMP error surfaces on the next call
                    return
                inbox, outbox = [bytes(b), api.ser(api.ShutdownCommand())], []
                net.srv.sock = types.SimpleNamespace(recvfrom=lambda n: (inbox.pop(0), "c"), sendto=lambda data, addr: outbox.append(data), close=lambda: None)
                net.srv.start()
                self.resp = outbox[0]

            def recv(self, n):
                hook = getattr(net, "before_recv", None)
                if hook is not None:
                    hook()
                if getattr(net, "dead", False):
                    raise ConnectionRefusedError("shm server is gone")
                if getattr(self, "timeout", None) and getattr(net, "late", 0) > 0:
                    # the server has handled the request; its answer takes longer than the client is prepared to wait
                    net.late -= 1
                    raise TimeoutError("timed out")
                return self.resp

            timeout = None

            def settimeout(self, t):
                self.timeout = t

            def __getattr__(self, name):
                # setsockopt, getsockname, fileno ...: accepted and ignored
                if name.startswith("__"):
                    raise AttributeError(name)
                return lambda *a, **k: None

            def close(self):
                pass

        return S()


DESER = ["cloudpickle.loads", "mymod.decode", ""]


class ShmClient(Harness):
    name = "shm-client-roundtrip"
    engine = "E1-crosshair"
    properties = ("C07", "C09", "C05")
    rule = "one path = a short script of client calls (allocate+write+close, get+read+close, purge, redundant allocate) over two keys with a decoding function from a palette; non-trivial = >=2 calls"
    assumptions = ["datagram socket -> one synchronous dispatch of the real LocalServer loop per request", "bytearray-backed shared memory with POSIX name semantics",
                   "no memory pressure (capacity 64, datasets <= 8 bytes); time.sleep is a no-op"]
    outside = ["datagram loss, concurrent clients, paging (covered at Manager level by C08/C09)"]

    def shards(self, tier):
        out = [{"len": n, "_prefix": [k]} for n in (1, 2) for k in range(4)]
        out += [{"len": n, "_prefix": [k], "late": 1} for n in (1, 2) for k in range(4)]
        for n in ((3,) if tier == "quick" else (3, 4)):
            out += [{"len": n, "_prefix": [k, j]} for k in range(4) for j in range(2)]
        return out

    def budget(self, tier):
        return 60.0

    def bounds(self, tier):
        return {"calls": "1..3" if tier == "quick" else "1..4", "keys": 2, "decoding_functions": DESER}

    def functions(self):
        return [client.allocate, client.get, client.purge, client.close_callback, client._send_command, client.AllocatedBuffer, server.LocalServer.start]

    def body(self, ch, params):
        with ch.untraced():
            SEGS.clear()
            importlib.reload(client)  # module-level state of the client (caches, ...) starts fresh on every path, as in a new process
            w = stubs_shm.reset_world()
            w.now = 10**15
            mgr = stubs_shm.make_manager(64)
            old = dataset.SharedMemory
            dataset.SharedMemory = RealisticSharedMemory
            srv = server.LocalServer.__new__(server.LocalServer)
            srv.manager = mgr
            client.socket = Net(srv)
            client.SharedMemory = RealisticSharedMemory
            client.is_unregister = False
            client.time = types.SimpleNamespace(sleep=lambda s: None)
            api.publish_client_port(1)
            written: dict[str, tuple[bytes, str]] = {}
            script = []
            # one answer of the server may arrive late (only a client that sets a receive timeout notices)
            client.socket.late = 1 if params.get("late") else 0
            try:
                for i in range(params["len"]):
                    op = ch.pick(4, f"op{i}")  # 0 write, 1 read, 2 purge, 3 write again (redundant)
                    key = ["k0", "k1"][ch.pick(2, f"key{i}")]
                    if op in (0, 3):
                        val = bytes([65 + i, 0, 255, i]) + (b"xy" if i % 2 else b"")
                        df = ch.choose(DESER, f"deser{i}") if params["len"] <= 2 else DESER[1]
                        script.append(("write", key, df))
                        try:
                            buf = client.allocate(key, len(val), df, timeout_sec=0.3)
                        except client.ConflictError:
                            if key not in written:
                                raise Violation("conflict-for-a-fresh-key", key)
                            continue
                        except Exception as e:
                            # there is no memory pressure here (capacity 64, a few bytes per dataset): nothing may be refused
                            raise Violation("allocation-that-fits-refused", f"{key} ({len(val)} bytes of 64): {type(e).__name__}: {e}")
                        if key in written:
                            raise Violation("second-writer-admitted", f"{key} allocated twice")
                        buf.view()[: len(val)] = val
                        buf.close()
                        written[key] = (val, df)
                    elif op == 1:
                        script.append(("read", key))
                        try:
                            buf = client.get(key, timeout_sec=0.3)
                        except Exception as e:
                            if key in written:
                                raise Violation("readable-dataset-not-delivered", f"{key}: {type(e).__name__}: {e}")
                            continue
                        if key not in written:
                            raise Violation("read-of-unknown-key-granted", key)
                        got = bytes(buf.view())
                        if got != written[key][0]:
                            raise Violation("bytes-read-differ-from-bytes-written", f"{key}: {got!r} vs {written[key][0]!r}")
                        if buf.deser_fun != written[key][1]:
                            raise Violation("decoding-function-read-differs-from-written", f"{key}: {buf.deser_fun!r} vs {written[key][1]!r}")
                        buf.close()
                    else:
                        script.append(("purge", key))
                        try:
                            client.purge(key)
                        except Exception:
                            if key in written:
                                raise Violation("purge-of-present-dataset-failed", key)
                            continue
                        written.pop(key, None)
                ch.note("script", script)
                ch.note("nontrivial", len(script) >= 2)
                for key, ds in mgr.datasets.items():
                    if ds.ongoing_reads:
                        raise Violation("reader-left-registered-after-close", key)
                if set(mgr.datasets) != set(written):
                    raise Violation("store-contents-differ-from-what-clients-did", f"{sorted(mgr.datasets)} vs {sorted(written)}")
                if mgr.free_space != 64 - sum(len(v[0]) for v in written.values()):
                    raise Violation("free-space-accounting", f"{mgr.free_space}")
                # two threads of one process (the data server's pool) talk to the store at the same time: thread 1 has sent its
                # request and is descheduled before it reads the answer; thread 2 does a whole round trip in between
                if len(written) == 2:
                    import threading

                    gate, t1_waiting = threading.Event(), threading.Event()
                    main = threading.get_ident()

                    def before_recv():
                        if threading.get_ident() != main:
                            t1_waiting.set()
                            gate.wait(20)

                    client.socket.before_recv = before_recv
                    res = {}

                    def t1():
                        try:
                            b = client.get("k0", timeout_sec=0.3)
                            res["k0"] = (bytes(b.view()), b.deser_fun)
                            b.close()
                        except Exception as e:
                            res["k0"] = e

                    th = threading.Thread(target=t1)
                    th.start()
                    t1_waiting.wait(20)
                    try:
                        b = client.get("k1", timeout_sec=0.3)
                        res["k1"] = (bytes(b.view()), b.deser_fun)
                        b.close()
                    except Exception as e:
                        res["k1"] = e
                    gate.set()
                    th.join(30)
                    client.socket.before_recv = None
                    for key in ("k0", "k1"):
                        if res.get(key) != written[key]:
                            raise Violation("concurrent-readers-got-each-others-answers", f"{key}: {res.get(key)!r} instead of {written[key]!r}")
                    for key, ds in mgr.datasets.items():
                        if ds.ongoing_reads:
                            raise Violation("reader-left-registered-after-close", key)
                # the server dies: a client call must come back (with an error) instead of retrying forever - a worker blocked
                # in it would never handle its shutdown message
                client.socket.dead = True
                for call in (lambda: client.get("k0", timeout_sec=0.3), lambda: client.purge("k1"), lambda: client.allocate("kz", 4, "d", timeout_sec=0.3)):
                    try:
                        with deadline(3, "client-call-never-returns-when-the-server-is-gone"):
                            call()
                    except Violation:
                        raise
                    except Exception:
                        pass
            finally:
                dataset.SharedMemory = old


register(ShmClient())
