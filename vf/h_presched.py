"""C16 -- scheduler.graph.precompute against an independent reference, for every DAG within the bound."""

from __future__ import annotations

import itertools
from collections import deque

from vf import repo_env
from vf.engine_xh import Violation, deadline
from vf.runner import Harness, register

repo_env.setup()
from vf import h_ctrl  # noqa: E402  (job generator)
import cascade.scheduler.graph as s_graph  # noqa: E402
import cascade.low.views as views  # noqa: E402
from cascade.low.core import DatasetId  # noqa: E402


def reference(spec):
    n = len(spec["tasks"])
    T = [f"t{j}" for j in range(n)]
    succ = {t: set() for t in T}
    pred = {t: set() for t in T}
    edge_o, edge_i = {}, {t: set() for t in T}
    for j, t in enumerate(spec["tasks"]):
        for (i, o, ps, kw) in t["ins"]:
            succ[f"t{i}"].add(f"t{j}")
            pred[f"t{j}"].add(f"t{i}")
            edge_o.setdefault(DatasetId(f"t{i}", o), set()).add(f"t{j}")
            edge_i[f"t{j}"].add(DatasetId(f"t{i}", o))
    task_o = {f"t{j}": {DatasetId(f"t{j}", o) for o in h_ctrl.out_names(t["nout"])} for j, t in enumerate(spec["tasks"])}
    # union-find components
    parent = {t: t for t in T}

    def find(x):
        while parent[x] != x:
            parent[x] = parent[parent[x]]
            x = parent[x]
        return x

    for a in T:
        for b in succ[a]:
            parent[find(a)] = find(b)
    comps = {}
    for t in T:
        comps.setdefault(find(t), set()).add(t)

    def bfs(a):
        d = {a: 0}
        q = deque([a])
        while q:
            x = q.popleft()
            for y in succ[x]:
                if y not in d:
                    d[y] = d[x] + 1
                    q.append(y)
        return d

    dist = {t: bfs(t) for t in T}
    out = []
    for comp in comps.values():
        sinks = {t for t in comp if not succ[t]}
        # depth = number of nodes on the longest path
        memo = {}

        def longest(t):
            if t not in memo:
                memo[t] = 1 + max((longest(c) for c in succ[t]), default=0)
            return memo[t]

        depth = max(longest(t) for t in comp)
        value = {t: depth - min(dist[t][s] for s in sinks if s in dist[t]) for t in comp}
        ncd = {}
        for a in comp:
            for b in comp:
                if a == b:
                    ncd[(a, b)] = 0
                    continue
                best = depth
                for c in comp:
                    if c in dist[a] and c in dist[b]:
                        best = min(best, max(dist[a][c], dist[b][c]))
                ncd[(a, b)] = best
        out.append({"nodes": comp, "sources": {t for t in comp if not pred[t]}, "depth": depth, "value": value, "ncd": ncd})
    return out, edge_o, edge_i, task_o


DOTTED_TASKS = {"t0": "a", "t1": "a.b", "t2": "a.b.c", "t3": "d", "t4": "e", "t5": "f"}
DOTTED_OUTS = {"t0": {"0": "b.c", "o1": "b.c", "o0": "b"}, "t1": {"0": "c", "o1": "c", "o0": "c.d"}, "t2": {"0": "0", "o1": "0", "o0": "d"}}


def rename_job(job, tmap, omap):
    """The same job under other task / output names (names are the author's to choose): here names with dots, such that
    task 'a' with output 'b.c' and task 'a.b' with output 'c' spell the same dotted string."""
    from cascade.low.core import JobInstance, Task2TaskEdge

    def ds(d):
        return DatasetId(tmap[d.task], omap.get(d.task, {}).get(d.output, d.output))

    tasks = {}
    for t, inst in job.tasks.items():
        schema = {omap.get(t, {}).get(o, o): v for o, v in inst.definition.output_schema.items()}
        tasks[tmap[t]] = inst.model_copy(update={"definition": inst.definition.model_copy(update={"output_schema": schema})})
    edges = [Task2TaskEdge(source=ds(e.source), sink_task=tmap[e.sink_task], sink_input_kw=e.sink_input_kw, sink_input_ps=e.sink_input_ps) for e in job.edges]
    return JobInstance(tasks=tasks, edges=edges, ext_outputs=[ds(d) for d in job.ext_outputs]), ds


def reorder(edges, how):
    edges = list(edges)
    if how == 1:
        edges.reverse()
    elif how == 2 and len(edges) > 1:
        edges = edges[1:] + edges[:1]
    elif how == 3 and len(edges) > 2:
        edges = edges[::2] + edges[1::2]  # edges into the same task are no longer adjacent
    return edges


class Presched(Harness):
    name = "presched"
    engine = "E1-crosshair"
    properties = ("C16",)
    rule = "one path = one DAG (edge option per ordered pair, incl. multi-edges and 2-output producers); non-trivial = >=1 edge"
    assumptions = ["coptrs absent: the python fallback of nearest_common_descendant is what runs", "SyncPool: precompute's thread pool map is a sequential map"]
    outside = ["the coptrs native path", "more tasks than the bound"]

    def shards(self, tier):
        out = []
        nmax = 4 if tier == "quick" else 5
        for n in range(0, nmax + 1):
            masks = [m for m in itertools.product([0, 1], repeat=n) if sum(m) <= (1 if n >= 4 else 2)]
            for multi in masks:
                if n >= 4:
                    for f01 in range(len(h_ctrl.pair_options(2 if multi[0] else 1))):
                        for f02 in range(len(h_ctrl.pair_options(2 if multi[0] else 1))):
                            out.append({"n": n, "multi": list(multi), "fixed": {"0-1": f01, "0-2": f02}})
                else:
                    out.append({"n": n, "multi": list(multi), "fixed": {}})
                    if n in (2, 3):
                        out.append({"n": n, "multi": list(multi), "fixed": {}, "dotted": True})
        if tier == "thorough":
            for f in itertools.product(range(4), repeat=4):
                out.append({"n": 6, "multi": [0] * 6, "fixed": {"0-1": f[0], "0-2": f[1], "1-2": f[2], "0-3": f[3]}, "simple": True})
        return out

    def budget(self, tier):
        return 100.0 if tier == "quick" else 900.0

    def bounds(self, tier):
        return {"tasks": "0..4" if tier == "quick" else "0..5 (6 with single-output tasks)", "edge_options_per_pair": "none / positional / keyword / double edge, per producer output"}

    def functions(self):
        return [s_graph.precompute, s_graph.decompose, s_graph.enrich, s_graph.nearest_common_descendant, views.dependants, views.param_source]

    def body(self, ch, params):
        with ch.untraced():
            fixed = {tuple(map(int, k.split("-"))): v for k, v in params.get("fixed", {}).items()}
            job, spec = h_ctrl.build_job(ch, params["n"], params["multi"], False, fixed, with_ext=False)
            ref, edge_o, edge_i, task_o = reference(spec)
            # the edge list of a job is a list the author wrote: any order; names are the author's too
            how = ch.pick(4, "edge_order") if len(job.edges) > 1 and params["n"] <= 3 else 0
            if how:
                job = job.model_copy(update={"edges": reorder(job.edges, how)})
            if params.get("dotted"):
                job, ds = rename_job(job, DOTTED_TASKS, DOTTED_OUTS)
                tm = DOTTED_TASKS
                edge_o = {ds(k): {tm[t] for t in v} for k, v in edge_o.items()}
                edge_i = {tm[k]: {ds(d) for d in v} for k, v in edge_i.items()}
                task_o = {tm[k]: {ds(d) for d in v} for k, v in task_o.items()}
                ref = [{"nodes": {tm[t] for t in r["nodes"]}, "sources": {tm[t] for t in r["sources"]}, "depth": r["depth"], "value": {tm[t]: v for t, v in r["value"].items()},
                        "ncd": {(tm[a], tm[b]): v for (a, b), v in r["ncd"].items()}} for r in ref]
            try:
                with deadline(30, "precompute-did-not-terminate"):
                    pre = s_graph.precompute(job)
            except Violation:
                raise
            except Exception as e:
                raise Violation(f"precompute-raised-{type(e).__name__}", str(e)[:200])
            ch.note("nontrivial", len(job.edges) > 0)
            ch.note("edges", [(repr(e.source), e.sink_task) for e in job.edges])
            T = set(job.tasks)
            seen = []
            for c in pre.components:
                seen.extend(c.nodes)
            if sorted(seen) != sorted(T):
                raise Violation("components-not-a-partition", f"{sorted(seen)} vs {sorted(T)}")
            got = sorted((sorted(c.nodes) for c in pre.components))
            want = sorted((sorted(r["nodes"]) for r in ref))
            if got != want:
                raise Violation("components-differ", f"{got} vs {want}")
            ws = [len(c.nodes) for c in pre.components]
            if ws != sorted(ws, reverse=True):
                raise Violation("components-not-heaviest-first", f"task counts {ws}")
            if [c.weight() for c in pre.components] != ws:
                raise Violation("component-weight-is-not-its-task-count", f"{[c.weight() for c in pre.components]} vs {ws}")
            if {k: v for k, v in pre.edge_o.items() if v} != edge_o:
                raise Violation("consumers-differ", f"{dict(pre.edge_o)} vs {edge_o}")
            if {k: v for k, v in pre.edge_i.items() if v} != {k: v for k, v in edge_i.items() if v}:
                raise Violation("inputs-differ", f"{dict(pre.edge_i)} vs {edge_i}")
            if dict(pre.task_o) != task_o:
                raise Violation("outputs-differ", "")
            for c in pre.components:
                r = next(r for r in ref if r["nodes"] == set(c.nodes))
                if set(c.sources) != r["sources"] or len(c.sources) != len(set(c.sources)):
                    raise Violation("sources-differ", f"{c.sources} vs {r['sources']}")
                if c.depth != r["depth"]:
                    raise Violation("depth-differs", f"{c.depth} vs {r['depth']} for {sorted(c.nodes)}")
                if dict(c.value) != r["value"]:
                    raise Violation("value-differs", f"{dict(c.value)} vs {r['value']}")
                for a in c.nodes:
                    for b in c.nodes:
                        try:
                            d = c.distance_matrix[a][b]
                        except KeyError:
                            raise Violation("distance-missing", f"{a},{b}")
                        if d != r["ncd"][(a, b)]:
                            raise Violation("distance-differs", f"d({a},{b})={d} vs {r['ncd'][(a, b)]}")


register(Presched())
