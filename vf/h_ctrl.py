"""C01-C04 (and C05e) -- the real controller loop against SimCluster; DAG shape, requested outputs, GPU needs and the
first K scheduling decisions are solver-decided picks; the decision tree is explored to exhaustion per shard."""

from __future__ import annotations

import itertools

from vf import repo_env
from vf.engine_xh import HarnessError, Violation
from vf.runner import Harness, register

repo_env.setup()
from vf import sim_cluster  # noqa: E402

sim_cluster.install()
import cascade.controller.act as c_act  # noqa: E402
import cascade.controller.impl as impl  # noqa: E402
import cascade.controller.notify as c_notify  # noqa: E402
import cascade.executor.runner.entrypoint as entrypoint  # noqa: E402
import cascade.executor.runner.memory as r_memory  # noqa: E402
import cascade.executor.runner.runner as r_runner  # noqa: E402
import cascade.scheduler.api as s_api  # noqa: E402
import cascade.scheduler.assign as s_assign  # noqa: E402
import cascade.scheduler.graph as s_graph  # noqa: E402
from cascade.low.core import DatasetId, JobInstance, Task2TaskEdge, TaskDefinition, TaskInstance  # noqa: E402

_FUNC_CACHE: dict = {}


FALSY = {"on": False}  # when on, task 0 (if single-output) produces the falsy value 0


def make_fn(j: int, nout: int, falsy: bool = False):
    """Uninterpreted task bodies: equal result terms <=> equal values under every interpretation."""
    if nout == 1 and falsy:

        def f(*args, **kwargs):
            return 0

    elif nout == 1:

        def f(*args, **kwargs):
            return (f"t{j}", args, tuple(sorted(kwargs.items())))

    else:

        def f(*args, **kwargs):
            for o in range(nout):
                yield (f"t{j}", o, args, tuple(sorted(kwargs.items())))

    return f


def func_enc(j, nout):
    falsy = FALSY["on"] and j == 0 and nout == 1
    k = (j, nout, falsy)
    if k not in _FUNC_CACHE:
        _FUNC_CACHE[k] = TaskDefinition.func_enc(make_fn(j, nout, falsy))
    return _FUNC_CACHE[k]


def out_names(nout):
    # declared (= yield) order is deliberately NOT the lexicographic order of the names
    return ["0"] if nout == 1 else [f"o{nout - 1 - o}" for o in range(nout)]


def pair_options(nout_src):
    outs = out_names(nout_src)
    opts = [()]
    for o in outs:
        opts.append(((o, "ps"),))
        opts.append(((o, "kw"),))
    opts.append(((outs[0], "ps"), (outs[-1], "kw")))  # multi-edge between the same pair
    return opts


def build_job(ch, n, multi, gpu_possible, fixed_edges=None, with_ext=True, ext_sinks=False, ext_all=False):
    """Returns (JobInstance, spec) -- spec is the plain description used by the sequential oracle."""
    spec = {"tasks": [], "edges": [], "ext": []}
    for j in range(n):
        nout = 2 if multi[j] else 1
        ins = []
        pos = 0
        for i in range(j):
            opts = pair_options(2 if multi[i] else 1)
            if fixed_edges is not None and (i, j) in fixed_edges:
                sel = opts[fixed_edges[(i, j)]]
            else:
                sel = opts[ch.pick(len(opts), f"e{i}_{j}")]
            for o, kind in sel:
                if kind == "ps":
                    ins.append((i, o, pos, None))
                    pos += 1
                else:
                    ins.append((i, o, None, f"k{i}{o}"))
        needs_gpu = bool(gpu_possible and ch.flag(f"gpu{j}"))
        spec["tasks"].append({"nout": nout, "ins": ins, "static_pos": pos, "needs_gpu": needs_gpu})
        for o in out_names(nout):
            if with_ext and ch.flag(f"ext{j}_{o}"):
                spec["ext"].append((j, o))
    if ext_sinks:
        consumed = {(i, o) for t in spec["tasks"] for (i, o, _, _) in t["ins"]}
        for j, t in enumerate(spec["tasks"]):
            for o in out_names(t["nout"]):
                if (j, o) not in consumed and (ext_all or ch.flag(f"extsink{j}")):
                    spec["ext"].append((j, o))
    if False:
        for o in []:
            if False:
                pass
    tasks, edges = {}, []
    for j, t in enumerate(spec["tasks"]):
        tid = f"t{j}"
        d = TaskDefinition(func=func_enc(j, t["nout"]), environment=[], entrypoint="", input_schema={},
                           output_schema={o: "Any" for o in out_names(t["nout"])}, needs_gpu=t["needs_gpu"])
        # a keyword fed by an edge may also carry a static default (as TaskBuilder.from_callable records them): the edge wins
        defaults = {kw: "default" for (_, _, ps, kw) in t["ins"] if kw is not None}
        tasks[tid] = TaskInstance(definition=d, static_input_kw={"sk": j, **defaults}, static_input_ps={str(t["static_pos"]): f"s{j}"})
        for (i, o, ps, kw) in t["ins"]:
            edges.append(Task2TaskEdge(source=DatasetId(f"t{i}", o), sink_task=tid, sink_input_kw=kw, sink_input_ps=ps))
    job = JobInstance(tasks=tasks, edges=edges, ext_outputs=[DatasetId(f"t{j}", o) for j, o in spec["ext"]])
    return job, spec


def sequential(spec) -> dict:
    """Reference: evaluate the DAG in one process, in index (= topological) order."""
    val = {}
    for j, t in enumerate(spec["tasks"]):
        args = [None] * (t["static_pos"] + 1)
        args[t["static_pos"]] = f"s{j}"
        kwargs = {"sk": j}
        for (i, o, ps, kw) in t["ins"]:
            v = val[(i, o)]
            if ps is not None:
                args[ps] = v
            else:
                kwargs[kw] = v
        args = tuple(args)
        kws = tuple(sorted(kwargs.items()))
        if t["nout"] == 1:
            val[(j, "0")] = 0 if (FALSY["on"] and j == 0) else (f"t{j}", args, kws)
        else:
            for oi, o in enumerate(out_names(t["nout"])):
                val[(j, o)] = (f"t{j}", oi, args, kws)
    return val


class PlanCounter:
    def __init__(self, bound):
        self.n, self.bound = 0, bound
        self.orig = s_api.plan

    def __call__(self, state, assignments):
        self.n += 1
        if self.n > self.bound:
            raise Violation("controller-spins", f"more than {self.bound} scheduling rounds")
        return self.orig(state, assignments)


HOST_SHAPES = {
    "1x66": [[0] * 66], "6x11": [[0] * 11] * 6,
    "1x1": [[0]], "1x2": [[0, 0]], "2x1": [[0], [0]], "2x2": [[0, 0], [0, 0]], "3x1": [[0], [0], [0]], "3x2": [[0, 0]] * 3,
    "2x1g": [[1], [0]], "1x2g": [[1, 0]], "2x2g": [[1, 0], [0, 0]], "1x1g": [[1]],
}


def run_controller(ch, params, monitors, fail_point=False):
    n, multi, hosts, K = params["n"], params["multi"], HOST_SHAPES[params["hosts"]], params["K"]
    gpu_possible = any(g for h in hosts for g in h)
    fixed = {tuple(map(int, k.split("-"))): v for k, v in params.get("fixed", {}).items()}
    with ch.untraced():
        FALSY["on"] = bool(params.get("falsy"))
        job, spec = build_job(ch, n, multi, gpu_possible, fixed, with_ext=not params.get("family"), ext_sinks=bool(params.get("family")), ext_all=bool(params.get("ext_all")))
        sim = sim_cluster.SimCluster(job, hosts, ch, K, monitors, ch.untraced)
        sim.overtake = bool(params.get("overtake"))
        if fail_point:
            sim.fail_at = ch.pick(6, "fail_at")
        pre = s_graph.precompute(job)
        counter = PlanCounter(8 * (n + len(job.edges) + len(job.ext_outputs)) + 16)
        impl.plan = counter
        crashed = None
        state = None
        try:
            state = impl.run(job, sim, pre)
        except Violation:
            ch.note("job", {"edges": [(f"t{i}.{o}", f"t{j}", ps if ps is not None else kw) for j, t in enumerate(spec["tasks"]) for (i, o, ps, kw) in t["ins"]],
                            "ext": [f"t{j}.{o}" for j, o in spec["ext"]], "hosts": params["hosts"], "multi": multi})
            ch.note("trace", [list(map(str, t)) for t in sim.trace[:60]])
            raise
        except HarnessError:
            raise
        except Exception as e:
            crashed = e
        finally:
            impl.plan = counter.orig
        oracle = sequential(spec)
        ch.note("job", {"edges": [(f"t{i}.{o}", f"t{j}", ps if ps is not None else kw) for j, t in enumerate(spec["tasks"]) for (i, o, ps, kw) in t["ins"]],
                        "ext": [f"t{j}.{o}" for j, o in spec["ext"]], "hosts": params["hosts"], "multi": multi})
        ch.note("trace", [list(map(str, t)) for t in sim.trace[:40]])
        ch.note("nontrivial", n >= 2 and len(job.edges) >= 1)
        return job, spec, sim, state, crashed, oracle


def family_shards(tier):
    """Disjoint chains: c components of length L against fewer / as many / more hosts (component migration)."""
    out = []
    fams = [(2, 2), (3, 1), (3, 2), (2, 3)] if tier == "quick" else [(2, 2), (3, 1), (3, 2), (2, 3), (4, 1), (3, 3), (4, 2)]
    # stars: one producer, k consumers (several consumers of one remote dataset land on one host in a single round)
    for k, hosts, K in ([(4, "2x2", 2), (3, "1x2", 2), (3, "3x1", 3)] if tier == "quick" else [(4, "2x2", 4), (3, "2x2", 5), (4, "3x2", 3), (3, "1x2", 4)]):
        n = k + 1
        fixed = {f"{i}-{j}": (1 if i == 0 else 0) for i in range(n) for j in range(i + 1, n)}
        out.append({"n": n, "multi": [0] * n, "hosts": hosts, "K": K, "fixed": fixed, "family": f"star of {k}"})
    # fan-in with a sibling: t3 needs t0 and t1, t2 needs t0 only (t0's output travels to another host for one consumer while
    # the other input of t3 is still being computed: a transfer notice must not count as the arrival of a missing input)
    for hosts, K in ([("2x1", 3)] if tier == "quick" else [("2x1", 7), ("2x2", 6), ("3x1", 6), ("1x2", 5)]):
        fixed = {f"{i}-{j}": 0 for i in range(4) for j in range(i + 1, 4)}
        fixed.update({"0-2": 1, "0-3": 1, "1-3": 1})
        out.append({"n": 4, "multi": [0] * 4, "hosts": hosts, "K": K, "fixed": fixed, "family": "fan-in with sibling"})
    # a wide job (one producer, 65 consumers) on a large cluster: more tasks become computable in one round than any per-round limit one might think of
    for hosts in (["1x66"] if tier == "quick" else ["1x66", "6x11"]):
        n = 66
        out.append({"n": n, "multi": [0] * n, "hosts": hosts, "K": 0, "fixed": {f"{i}-{j}": (1 if i == 0 else 0) for i in range(n) for j in range(i + 1, n)}, "family": "star of 65", "ext_all": True})
    for (c, L) in fams:
        n = c * L
        fixed = {}
        for i in range(n):
            for j in range(i + 1, n):
                # task index = comp * L + position ; edge between consecutive positions of the same chain
                fixed[f"{i}-{j}"] = 1 if (i // L == j // L and j == i + 1) else 0
        for hosts in (["1x1", "2x1", "3x1", "1x2"] if tier == "quick" else ["1x1", "2x1", "3x1", "1x2", "2x2"]):
            out.append({"n": n, "multi": [0] * n, "hosts": hosts, "K": 3 if tier == "quick" else 5, "fixed": fixed, "family": f"{c} chains of {L}"})
    return out


class Ctrl(Harness):
    engine = "E1-crosshair"
    rule = ("one path = (DAG edges, requested outputs, gpu needs, first K scheduling decisions); non-trivial = >=2 tasks and >=1 edge; "
            "distinct = distinct decision sequences")
    assumptions = ["SimCluster contract (vf/sim_cluster.py): FIFO per executor channel, FIFO per data-server channel, purge immediate, "
                   "worker starts a sequence only when inputs are in its host's store",
                   "task bodies are uninterpreted term constructors: equality of terms = equality of values for every interpretation",
                   "after the first K free scheduling decisions a fixed fair default finishes the run"]
    outside = ["more tasks / free scheduling decisions than the bound", "real sockets and processes", "shared-memory pressure", "custom serde"]

    def __init__(self, name, pid, monitors):
        self.name, self.properties, self.monitors = name, (pid,), monitors
        self.pid = pid

    def shards(self, tier):
        out = []
        if tier == "quick":
            for hosts in ["1x1", "2x1", "1x2", "2x2", "3x1", "2x1g", "1x1g"]:
                for n in (0, 1, 2):
                    for multi in itertools.product([0, 1], repeat=n):
                        K = 4 if not (n == 2 and (any(multi) or hosts == "2x1g")) else (3 if hosts != "2x1g" else 2)
                        out.append({"n": n, "multi": list(multi), "hosts": hosts, "K": K})
            for n in (1, 2):
                out.append({"n": n, "multi": [0] * n, "hosts": "2x1", "K": 3, "falsy": True})  # a requested output whose value is falsy
            # a retried notice is overtaken by the next one of the same executor (two-output task, one or two tasks)
            out.append({"n": 1, "multi": [1], "hosts": "1x1", "K": 5, "overtake": True})
            out.append({"n": 2, "multi": [1, 0], "hosts": "1x2", "K": 4, "overtake": True})
            for hosts, multi, K in [("2x1", [0, 0, 0], 4), ("1x2", [0, 0, 0], 3), ("2x2", [0, 0, 0], 3), ("2x1g", [0, 0, 0], 2), ("1x1g", [0, 0, 0], 1), ("1x1", [0, 0, 0], 2),
                                    ("2x1", [1, 0, 0], 3)]:
                for f01 in range(len(pair_options(2 if multi[0] else 1))):
                    base = {"n": 3, "multi": multi, "hosts": hosts, "K": K, "fixed": {"0-1": f01}}
                    if hosts == "2x1g":
                        # the largest trees of the quick tier (gpu flags multiply the jobs): case-split on the leading picks
                        from vf.engine_xh import split_prefixes

                        out += [{**base, "_prefix": p} for p in split_prefixes(self.body, base, 4)]
                    else:
                        out.append(base)
        out += family_shards(tier)
        if tier == "thorough":
            K = 8
            for hosts in HOST_SHAPES:
                for n in (0, 1, 2):
                    for multi in itertools.product([0, 1], repeat=n):
                        out.append({"n": n, "multi": list(multi), "hosts": hosts, "K": K})
            for hosts in ["2x1", "1x2", "2x2", "3x1", "2x1g", "2x2g", "3x2"]:
                for multi in ([0, 0, 0], [1, 0, 0], [0, 1, 0], [1, 1, 0]):
                    for f01 in range(len(pair_options(2 if multi[0] else 1))):
                        for f02 in range(len(pair_options(2 if multi[0] else 1))):
                            out.append({"n": 3, "multi": multi, "hosts": hosts, "K": K, "fixed": {"0-1": f01, "0-2": f02}})
            for hosts in ["2x1", "2x2", "3x1"]:
                for f in itertools.product(range(4), repeat=3):
                    out.append({"n": 4, "multi": [0, 0, 0, 0], "hosts": hosts, "K": 6, "fixed": {"0-1": f[0], "0-2": f[1], "1-2": f[2]}})
        return out

    def budget(self, tier):
        return 100.0 if tier == "quick" else 600.0

    def bounds(self, tier):
        return {"tasks": "0..3" if tier == "quick" else "0..4", "free_scheduling_decisions_K": "2..4" if tier == "quick" else "8 (6 for 4 tasks)",
                "cluster_shapes": sorted({s["hosts"] for s in self.shards(tier)}), "outputs_per_task": "1..2"}

    def functions(self):
        return [impl.run, c_notify.notify, c_notify.consider_fetch, c_notify.consider_purge, c_notify.consider_computable, c_act.act, c_act.flush_queues,
                s_api.initialize, s_api.assign, s_api.plan, s_assign.build_assignment, s_assign._assignment_heuristic, s_assign.assign_within_component,
                s_assign.migrate_to_component, s_assign.update_worker2task_distance, s_assign.set_worker2task_overhead, s_graph.precompute,
                r_runner.run, r_memory.Memory, entrypoint.RunnerContext]

    def body(self, ch, params):
        job, spec, sim, state, crashed, oracle = run_controller(ch, params, self.monitors)
        with ch.untraced():
            if crashed is not None:
                if self.pid == "C03":
                    raise Violation(f"controller-raised-{type(crashed).__name__}", str(crashed)[:200])
                # a crash is C03's business; the other monitors only judge what happened before it
                return
            if self.pid == "C01":
                want = {DatasetId(f"t{j}", o) for j, o in spec["ext"]}
                got = {k for k, v in state.outputs.items() if v is not None}
                if set(state.outputs.keys()) != want or got != want:
                    raise Violation("requested-output-not-delivered", f"requested {sorted(map(repr, want))} delivered {sorted(map(repr, got))}")
                for (j, o) in spec["ext"]:
                    if state.outputs[DatasetId(f"t{j}", o)] != oracle[(j, o)]:
                        raise Violation("delivered-value-differs-from-sequential", f"t{j}.{o}: {state.outputs[DatasetId(f't{j}', o)]!r} vs {oracle[(j, o)]!r}")
            if self.pid == "C02":
                for j in range(len(spec["tasks"])):
                    if f"t{j}" not in sim.dispatched:
                        raise Violation("task-never-dispatched", f"t{j}")
            if self.pid == "C03":
                if len(sim.ran) != len(spec["tasks"]):
                    raise Violation("finished-with-tasks-not-run", f"{sorted(sim.ran)}")
                if any(v is None for v in state.outputs.values()):
                    raise Violation("finished-with-output-missing")
                if sim.shutdowns != 1:
                    raise Violation("shutdown-count", f"{sim.shutdowns}")
                if sim.pending:
                    # commands still outstanding at shutdown are legal only if nobody needs them any more
                    pass
            if self.pid == "C04":
                # a dataset dropped everywhere is never needed again
                for p in sim.pending:
                    if p[0] in ("xfer", "fetch") and not sim.holds(p[2], p[1]):
                        raise Violation("outstanding-command-on-dropped-dataset", f"{p[0]} {p[1]} from {p[2]}")


register(Ctrl("ctrl-C01", "C01", set()))
register(Ctrl("ctrl-C02", "C02", {"C02"}))
register(Ctrl("ctrl-C03", "C03", set()))
register(Ctrl("ctrl-C04", "C04", {"C04"}))


class ActStep(Harness):
    """One call of controller.act.act on an arbitrary assignment: every remote preparation entry is commanded as a transfer,
    local ones are not, and the task sequence is sent once -- whatever the order of the entries."""

    name = "act-step"
    engine = "E1-crosshair"
    properties = ("C01", "C02", "C03")
    rule = "one path = an assignment with <=3 preparation entries, each local or on one of two other hosts, in any order; non-trivial = >=2 entries of different kind"
    assumptions = ["the bridge is a recorder"]
    outside = []

    def shards(self, tier):
        return [{"n": n} for n in range(0, 4 if tier == "quick" else 5)]

    def budget(self, tier):
        return 60.0

    def bounds(self, tier):
        return {"preparation_entries": "0..3" if tier == "quick" else "0..4", "hosts": "the worker's own and two others"}

    def functions(self):
        return [c_act.act]

    def body(self, ch, params):
        from cascade.low.core import WorkerId
        from cascade.scheduler.core import Assignment

        with ch.untraced():
            w = WorkerId("h0", "w1")
            hosts = ["h0", "h1", "h2"]
            prep = [(DatasetId(f"p{k}", "0"), hosts[ch.pick(3, f"host{k}")]) for k in range(params["n"])]
            outs = {DatasetId("t", "0")}
            calls = []

            class Rec:
                def transmit(self, ds, source, target):
                    calls.append(("transmit", ds, source, target))

                def task_sequence(self, ts):
                    calls.append(("ts", ts.worker, tuple(ts.tasks), frozenset(ts.publish)))

                def get_environment(self):
                    return env

            # a real controller state for a job in which `t` consumes p0..p{n-1}, on three hosts
            from cascade.low.core import Environment, Worker

            d = TaskDefinition(func=func_enc(0, 1), environment=[], entrypoint="", input_schema={}, output_schema={"0": "Any"})
            tasks = {f"p{k}": TaskInstance(definition=d, static_input_kw={}, static_input_ps={}) for k in range(params["n"])}
            tasks["t"] = TaskInstance(definition=d, static_input_kw={}, static_input_ps={})
            edges = [Task2TaskEdge(source=DatasetId(f"p{k}", "0"), sink_task="t", sink_input_kw=None, sink_input_ps=k) for k in range(params["n"])]
            job = JobInstance(tasks=tasks, edges=edges, ext_outputs=[DatasetId("t", "0")])
            env = Environment(workers={WorkerId(h, wn): Worker(cpu=1, gpu=0, memory_mb=1024) for h in hosts for wn in ("w0", "w1")})
            state = s_api.initialize(env, s_graph.precompute(job), set(job.ext_outputs))
            try:
                c_act.act(Rec(), state, Assignment(worker=w, tasks=["t"], prep=list(prep), outputs=set(outs)))
            except Exception as e:
                raise Violation(f"act-raised-{type(e).__name__}", str(e)[:200])
            ch.note("prep", [(repr(d), h) for d, h in prep])
            ch.note("nontrivial", len({h == "h0" for _, h in prep}) == 2)
            want = [("transmit", d, h, "h0") for d, h in prep if h != "h0"]
            got = [c for c in calls if c[0] == "transmit"]
            if got != want:
                raise Violation("remote-input-not-commanded", f"prep {[(repr(d), h) for d, h in prep]}: transfers {[(repr(c[1]), c[2]) for c in got]}")
            ts = [c for c in calls if c[0] == "ts"]
            if ts != [("ts", w, ("t",), frozenset(outs))] or calls[-1][0] != "ts":
                raise Violation("task-sequence-not-sent-once-after-transfers", str(calls))


register(ActStep())


class PlanStep(Harness):
    """One call of scheduler.api.plan: a local no-op preparation (the dataset is already available on the host, held by a
    sibling worker) must not make the host look as if it no longer had the dataset."""

    name = "plan-step"
    engine = "E1-crosshair"
    properties = ("C03", "C04")
    rule = "one path = (cluster shape, where the dataset is available, which worker gets the consumer and with which preparation entry); non-trivial = the target host already holds the dataset"
    assumptions = ["state built by the real initialize() for a producer with two consumers, then the producer's output marked available as notify would"]
    outside = []

    def shards(self, tier):
        return [{"hosts": h} for h in ("1x2", "2x2", "2x1")]

    def budget(self, tier):
        return 60.0

    def bounds(self, tier):
        return {"hosts": ["1x2", "2x2", "2x1"], "tasks": "producer + 2 consumers"}

    def functions(self):
        return [s_api.plan, s_api._set_preparing_at]

    def body(self, ch, params):
        from cascade.scheduler.core import Assignment, DatasetStatus

        with ch.untraced():
            FALSY["on"] = False
            fixed = {(0, 1): 1, (0, 2): 1, (1, 2): 0}
            job, spec = build_job(ch, 3, [0, 0, 0], False, fixed, with_ext=False)
            sim = sim_cluster.SimCluster(job, HOST_SHAPES[params["hosts"]], ch, 0, set(), ch.untraced)
            state = s_api.initialize(sim.env, s_graph.precompute(job), set())
            ds = DatasetId("t0", "0")
            workers = sorted(sim.workers, key=repr)
            holder = ch.choose(workers, "holder")
            # what notify() records when the producer's output is published by `holder`
            state.host2ds[holder.host][ds] = DatasetStatus.available
            state.ds2host[ds][holder.host] = DatasetStatus.available
            state.worker2ds[holder][ds] = DatasetStatus.available
            state.ds2worker[ds][holder] = DatasetStatus.available
            target = ch.choose(workers, "target")
            src_host = holder.host
            a = Assignment(worker=target, tasks=["t1"], prep=[(ds, src_host)], outputs={DatasetId("t1", "0")})
            for w in workers:
                state.host2component[w.host] = 0
                state.components[0].worker2task_distance.setdefault(w, __import__("collections").defaultdict(lambda: state.components[0].core.depth))
            try:
                state = s_api.plan(state, [a])
            except Exception as e:
                raise Violation(f"plan-raised-{type(e).__name__}", str(e)[:200])
            ch.note("case", {"hosts": params["hosts"], "holder": repr(holder), "target": repr(target)})
            ch.note("nontrivial", target.host == holder.host)
            if state.ds2host[ds].get(holder.host) != DatasetStatus.available:
                raise Violation("available-dataset-downgraded-by-planning", f"{ds} at {holder.host}: {state.ds2host[ds].get(holder.host)} after planning {a.tasks} on {target}")
            if not any(st == DatasetStatus.available for st in state.ds2host[ds].values()):
                raise Violation("no-transfer-source-left", repr(ds))


register(PlanStep())


class NotifyStep(Harness):
    """controller.notify on publication notices in any order and multiplicity: a task becomes computable exactly when each of
    its inputs has been announced at least once -- a second notice about the same dataset (the completion of a transfer to
    another host) is not the arrival of another input."""

    name = "notify-step"
    engine = "E1-crosshair"
    properties = ("C02", "C03")
    rule = "one path = a sequence of <=5 publication / transfer-completion notices for the inputs of a fan-in task, with batch boundaries; non-trivial = a transfer notice precedes the last missing input"
    assumptions = ["state built by the real initialize / assign / plan for two producers and one consumer of both on two hosts", "a transfer completion is announced only after the original publication"]
    outside = []

    def shards(self, tier):
        return [{"multi": m, "len": n} for m in (0, 1) for n in range(1, 5 if tier == "quick" else 7)]

    def budget(self, tier):
        return 60.0

    def bounds(self, tier):
        return {"notices": "1..4" if tier == "quick" else "1..6", "inputs_of_the_consumer": "2 (3 when the first producer has two outputs)"}

    def functions(self):
        return [c_notify.notify, c_notify.consider_computable, s_api.initialize, s_api.assign, s_api.plan]

    def body(self, ch, params):
        from cascade.controller.report import Reporter
        from cascade.executor.msg import DatasetPublished

        with ch.untraced():
            FALSY["on"] = False
            multi = [params["multi"], 0, 0]
            # t0, t1 -> t2 (t2 reads every output of t0 and the output of t1)
            fixed = {(0, 1): 0, (0, 2): (len(pair_options(2)) - 1) if multi[0] else 1, (1, 2): 1}
            job, spec = build_job(ch, 3, multi, False, fixed, with_ext=False)
            sim = sim_cluster.SimCluster(job, HOST_SHAPES["2x1"], ch, 0, set(), ch.untraced)
            state = s_api.initialize(sim.env, s_graph.precompute(job), set())
            assignments = list(s_api.assign(state, job, sim.env))
            state = s_api.plan(state, assignments)
            where = {t: a.worker for a in assignments for t in a.tasks}
            if set(where) != {"t0", "t1"}:
                raise HarnessError(f"first round assigned {where}")
            inputs = [DatasetId("t0", o) for o in out_names(2 if multi[0] else 1)] + [DatasetId("t1", "0")]
            rep = Reporter(None)
            published, seen_xfer_early = set(), False
            log = []
            comp = state.components[state.ts2component["t2"]]
            idx = 0
            for i in range(params["len"]):
                opts = [("pub", d) for d in inputs if d not in published] + [("xfer", d) for d in inputs if d in published]
                # outputs of one generator are published in declaration order
                opts = [o for o in opts if not (o[0] == "pub" and o[1].task == "t0" and any(d.task == "t0" and d not in published and inputs.index(d) < inputs.index(o[1]) for d in inputs))]
                kind, d = ch.choose(opts, f"ev{i}")
                if kind == "pub":
                    ev = DatasetPublished(origin=where[d.task], ds=d, transmit_idx=None)
                    published.add(d)
                else:
                    other = [h for h in sim.stores if h != where[d.task].host][0]
                    ev = DatasetPublished(origin=other, ds=d, transmit_idx=idx)
                    idx += 1
                    if len(published) < len(inputs):
                        seen_xfer_early = True
                log.append(f"{kind} {d!r}")
                try:
                    state = c_notify.notify(state, job, [ev], rep)
                except Exception as e:
                    raise Violation(f"notify-raised-{type(e).__name__}", f"{log}: {e}")
                want = len(published) == len(inputs)
                got = "t2" in comp.computable
                if got and not want:
                    raise Violation("task-computable-before-its-inputs-exist", f"after {log}: t2 is computable but only {sorted(map(repr, published))} have been produced")
                if want and not got:
                    raise Violation("task-not-computable-although-inputs-exist", f"after {log}")
                if state.computable != (1 if want else 0):
                    raise Violation("computable-counter-wrong", f"after {log}: {state.computable}")
            ch.note("notices", log)
            ch.note("nontrivial", seen_xfer_early)


register(NotifyStep())


class BuildAssignmentStep(Harness):
    """One call of scheduler.assign.build_assignment for a consumer placed on a host that lacks its input, with the input spread
    over three other hosts in any mix of 'available' (the copy is there) and 'preparing' (a transfer to that host is still in
    flight): the transfer it plans must name a source that holds the dataset now."""

    name = "build-assignment-step"
    engine = "E1-crosshair"
    properties = ("C04", "C02")
    rule = "one path = (status of the dataset on each of three hosts, in the order the copies were requested; target worker); non-trivial = a host that is still receiving the dataset precedes one that has it"
    assumptions = ["state built by the real initialize() for a producer and a consumer on four hosts; dataset statuses set as notify / plan record them"]
    outside = []

    def shards(self, tier):
        return [{}]

    def budget(self, tier):
        return 60.0

    def bounds(self, tier):
        return {"hosts": 4, "replica_statuses": "available / preparing per host, at least one available"}

    def functions(self):
        return [s_assign.build_assignment]

    def body(self, ch, params):
        from cascade.scheduler.core import DatasetStatus

        with ch.untraced():
            FALSY["on"] = False
            job, spec = build_job(ch, 2, [0, 0], False, {(0, 1): 1}, with_ext=False)
            sim = sim_cluster.SimCluster(job, [[0], [0], [0], [0]], ch, 0, set(), ch.untraced)
            state = s_api.initialize(sim.env, s_graph.precompute(job), set())
            ds = DatasetId("t0", "0")
            hosts = ["h0", "h1", "h2"]
            order = ch.choose(list(itertools.permutations(hosts)), "request_order")  # the order in which the copies came into being
            sts = [ch.choose([DatasetStatus.available, DatasetStatus.preparing], f"status_{h}") for h in order]
            ch.assume(any(s == DatasetStatus.available for s in sts))
            for h, st in zip(order, sts):
                state.host2ds[h][ds] = st
                state.ds2host[ds][h] = st
            target = [w for w in sorted(sim.workers, key=repr) if w.host == "h3"][0]
            try:
                a = s_assign.build_assignment(target, "t1", state)
            except Exception as e:
                raise Violation(f"build_assignment-raised-{type(e).__name__}", str(e)[:200])
            ch.note("case", {"order": list(order), "statuses": [s.name for s in sts]})
            first_av = [i for i, s in enumerate(sts) if s == DatasetStatus.available][0]
            ch.note("nontrivial", first_av > 0)
            preps = [(d, h) for d, h in a.prep if d == ds]
            if len(preps) != 1:
                raise Violation("remote-input-not-planned-once", f"{a.prep}")
            src = preps[0][1]
            holds = {h for h, s in zip(order, sts) if s == DatasetStatus.available}
            if src not in holds:
                raise Violation("transfer-planned-from-a-host-that-does-not-hold-the-dataset", f"copies {dict(zip(order, [s.name for s in sts]))}: source {src}")
            if a.tasks != ["t1"] or a.worker != target:
                raise Violation("assignment-differs", repr(a))


register(BuildAssignmentStep())


class FetchStep(Harness):
    """notify + flush_queues on the notices about one requested output that also travels to a second host: it is fetched exactly
    once whatever its value is (0, '', False, None-like values included) and in whatever order payload and replica notice come."""

    name = "fetch-step"
    engine = "E1-crosshair"
    properties = ("C04", "C01")
    rule = "one path = (value of the requested output from a palette incl. falsy values, order of {payload delivered, replica announced on the other host, unrelated round}); non-trivial = the value is falsy and the replica is announced after the delivery"
    assumptions = ["state built by the real initialize / assign / plan for a producer whose output is requested and consumed on two hosts; the bridge is a recorder"]
    outside = []
    VALUES = [0, "", False, [], 0.0, 7, "x"]

    def shards(self, tier):
        return [{"value": i} for i in range(len(self.VALUES))]

    def budget(self, tier):
        return 60.0

    def bounds(self, tier):
        return {"values": [repr(v) for v in self.VALUES], "notices": "publication, then payload / replica notice / idle round in any order"}

    def functions(self):
        return [c_notify.notify, c_notify.consider_fetch, c_notify.consider_purge, c_act.flush_queues]

    def body(self, ch, params):
        import cascade.executor.serde as serde
        from cascade.controller.report import Reporter
        from cascade.executor.msg import DatasetPublished, DatasetTransmitPayload, DatasetTransmitPayloadHeader

        with ch.untraced():
            FALSY["on"] = False
            # t0 -> t1, t0 -> t2 ; t0.0 is also requested by the caller
            job, spec = build_job(ch, 3, [0, 0, 0], False, {(0, 1): 1, (0, 2): 1, (1, 2): 0}, with_ext=False)
            ds = DatasetId("t0", "0")
            job = job.model_copy(update={"ext_outputs": [ds]})
            sim = sim_cluster.SimCluster(job, HOST_SHAPES["2x1"], ch, 0, set(), ch.untraced)
            state = s_api.initialize(sim.env, s_graph.precompute(job), {ds})
            calls = []

            class Rec:
                def fetch(self, d, host):
                    calls.append(("fetch", d, host))

                def purge(self, host, d):
                    calls.append(("purge", d, host))

            assignments = list(s_api.assign(state, job, sim.env))
            state = s_api.plan(state, assignments)
            w0 = next(a.worker for a in assignments if "t0" in a.tasks)
            other = [h for h in sim.stores if h != w0.host][0]
            rep = Reporter(None)
            value = self.VALUES[params["value"]]
            raw, deser_fun = serde.ser_output(value, "Any")
            state = c_notify.notify(state, job, [DatasetPublished(origin=w0, ds=ds, transmit_idx=None)], rep)
            state = c_act.flush_queues(Rec(), state)
            todo = ["payload", "replica", "idle"]
            log = []
            delivered_before_replica = False
            while todo:
                ev = todo.pop(ch.pick(len(todo), f"ev{len(log)}"))
                log.append(ev)
                if ev == "payload":
                    hdr = DatasetTransmitPayloadHeader(confirm_address="x", confirm_idx=0, ds=ds, deser_fun=deser_fun)
                    state = c_notify.notify(state, job, [DatasetTransmitPayload(header=hdr, value=bytes(raw))], rep)
                    delivered_before_replica = "replica" in todo
                elif ev == "replica":
                    state = c_notify.notify(state, job, [DatasetPublished(origin=other, ds=ds, transmit_idx=5)], rep)
                state = c_act.flush_queues(Rec(), state)
            ch.note("case", {"value": repr(value), "order": log})
            ch.note("nontrivial", (not value) and delivered_before_replica)
            fetches = [c for c in calls if c[0] == "fetch" and c[1] == ds]
            if len(fetches) != 1:
                raise Violation("requested-output-fetched-wrong-number-of-times", f"value {value!r}, order {log}: {len(fetches)} fetches")
            if state.outputs.get(ds, "missing") != value or type(state.outputs.get(ds)) is not type(value):
                raise Violation("delivered-value-differs", f"{state.outputs.get(ds)!r} vs {value!r}")
            if any(c[0] == "purge" and c[1] == ds for c in calls):
                raise Violation("purge-while-still-needed", f"{ds} purged although its consumers have not run (order {log})")


register(FetchStep())


class MigrateStep(Harness):
    """scheduler.assign.migrate_to_component from states the real controller functions produce: a host that has run out of work may
    be moved into any component at any time -- also into one whose tasks have already been handed to workers -- without the
    bookkeeping raising, and afterwards it knows a distance for every task the component still tracks."""

    name = "migrate-step"
    engine = "E1-crosshair"
    properties = ("C03",)
    rule = "one path = (cluster shape, which worker reported the producer's output, rounds played before the migration, migrating host); non-trivial = the component already has an assigned task when the host arrives"
    assumptions = ["state built by the real initialize / assign / plan / notify for a producer with two consumers next to an isolated task"]
    outside = []

    def shards(self, tier):
        return [{"hosts": h, "rounds": r} for h in ("2x1", "2x2", "1x2") for r in (1, 2, 3)]

    def budget(self, tier):
        return 60.0

    def bounds(self, tier):
        return {"hosts": ["2x1", "2x2", "1x2"], "rounds_before_migration": "1..3", "job": "t0 -> t1, t0 -> t2 and an isolated task t3"}

    def functions(self):
        return [s_assign.migrate_to_component, s_assign.update_worker2task_distance, s_assign.set_worker2task_overhead, s_api.plan, s_api.assign]

    def body(self, ch, params):
        from cascade.controller.report import Reporter
        from cascade.executor.msg import DatasetPublished

        with ch.untraced():
            FALSY["on"] = False
            # t0 feeds t1 and t2 (the second consumer lands on another worker than the producer: a prepared input); t3 is on its own
            fixed = {(i, j): 0 for i in range(4) for j in range(i + 1, 4)}
            fixed.update({(0, 1): 1, (0, 2): 1})
            job, spec = build_job(ch, 4, [0, 0, 0, 0], False, fixed, with_ext=False)
            sim = sim_cluster.SimCluster(job, HOST_SHAPES[params["hosts"]], ch, 0, set(), ch.untraced)
            state = s_api.initialize(sim.env, s_graph.precompute(job), set())
            rep = Reporter(None)
            running: dict = {}
            for r in range(params["rounds"]):
                try:
                    assignments = list(s_api.assign(state, job, sim.env))
                    state = s_api.plan(state, assignments)
                except Exception as e:
                    raise Violation(f"scheduling-round-raised-{type(e).__name__}", f"round {r}: {e}")
                for a in assignments:
                    for t in a.tasks:
                        running[t] = a.worker
                if r < params["rounds"] - 1 and running:
                    # one of the running tasks completes (solver's choice) and is reported
                    t = ch.choose(sorted(running), f"completes{r}")
                    w = running.pop(t)
                    state = c_notify.notify(state, job, [DatasetPublished(origin=w, ds=DatasetId(t, "0"), transmit_idx=None)], rep)
            comp = state.ts2component["t1"]
            host = ch.choose(sorted(sim.stores), "migrating_host")
            assigned_before = any(state.ts2worker.get(t) for t in state.components[comp].worker2task_values)
            ch.note("case", {"hosts": params["hosts"], "rounds": params["rounds"], "host": host, "running": {t: repr(w) for t, w in running.items()}})
            ch.note("nontrivial", bool(assigned_before))
            try:
                state = s_assign.migrate_to_component(host, comp, state)
            except Exception as e:
                raise Violation(f"migration-raised-{type(e).__name__}", f"{host} -> component of t1 after {params['rounds']} round(s): {e}")
            c = state.components[comp]
            for w in state.host2workers[host]:
                if w not in c.worker2task_distance:
                    raise Violation("migrated-worker-has-no-distances", repr(w))


register(MigrateStep())
