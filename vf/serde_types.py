"""Value types with a registered custom serde, for the serde-registry harness (importable by name: the registry resolves
`module.function` strings)."""


class Grid:
    def __init__(self, values):
        self.values = list(values)

    def __eq__(self, other):
        return type(self) is type(other) and self.__dict__ == other.__dict__

    def __repr__(self):
        return f"{type(self).__name__}({self.__dict__})"


class MaskedGrid(Grid):
    """A proper subclass that adds state the base type's serialiser knows nothing about."""

    def __init__(self, values, mask):
        super().__init__(values)
        self.mask = list(mask)


class Other:
    def __init__(self, x):
        self.x = x

    def __eq__(self, other):
        return type(self) is type(other) and self.x == other.x


def ser_grid(g) -> bytes:
    return bytes(g.values)


def des_grid(b) -> Grid:
    return Grid(list(bytes(b)))
