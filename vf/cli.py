"""./vf check <property> [--tier quick|thorough] | replay <file> | list"""

from __future__ import annotations

import argparse
import importlib
import json
import os
import sys
import time

# property -> (harness modules, harness names)
PROPS: dict[str, dict] = {
    "C05": {"modules": ["vf.h_fail", "vf.h_shm", "vf.h_stack", "vf.h_shmclient"], "harnesses": ["shm-atexit", "fail-healthcheck", "fail-executor-loop", "fail-task-body", "fail-bridge-events", "fail-controller-run", "fullstack-C05", "shm-client-roundtrip"]},
    "C07": {"modules": ["vf.h_xfer", "vf.h_shmclient", "vf.h_comms"], "harnesses": ["data-transfers", "shm-client-roundtrip", "payload-roundtrip"]},
    "C06": {"modules": ["vf.h_comms"], "harnesses": ["ack-messaging", "retry-budget-step", "retry-when-busy", "dedup-permanent", "frame-sequences"]},
    "C11": {"modules": ["vf.h_xform"], "harnesses": ["xform-copy-rename", "xform-dedup-fuse", "xform-split-expand", "xform-symnames", "xform-cutnames", "xform-split-ancestry", "xform-expand-single"]},
    "C14": {"modules": ["vf.h_names"], "harnesses": ["fluent-names", "fluent-operands"]},
    "C13": {"modules": ["vf.h_fluent"], "harnesses": ["fluent-symreal"]},
    "C15": {"modules": ["vf.h_backends"], "harnesses": ["backends-symreal"]},
    "C18": {"modules": ["vf.h_gateway"], "harnesses": ["gateway-reports"]},
    "C19": {"modules": ["vf.h_builder"], "harnesses": ["job-builder"]},
    "C12": {"modules": ["vf.h_serial"], "harnesses": ["serial-roundtrip", "serial-symnames"]},
    "C10": {"modules": ["vf.h_lower"], "harnesses": ["lower-args", "lower-yields", "lower-builder-run", "serde-registry"]},
    "C16": {"modules": ["vf.h_presched"], "harnesses": ["presched"]},
    "C01": {"modules": ["vf.h_ctrl", "vf.h_stack", "vf.h_lower"], "harnesses": ["ctrl-C01", "act-step", "serde-registry", "fullstack-C01"]},
    "C02": {"modules": ["vf.h_ctrl", "vf.h_worker", "vf.h_stack"], "harnesses": ["ctrl-C02", "worker-wakeup", "act-step", "notify-step", "fullstack-C02"]},
    "C03": {"modules": ["vf.h_ctrl", "vf.h_stack"], "harnesses": ["ctrl-C03", "plan-step", "act-step", "notify-step", "migrate-step", "fullstack-C03"]},
    "C04": {"modules": ["vf.h_ctrl"], "harnesses": ["ctrl-C04", "plan-step", "build-assignment-step", "fetch-step"]},
    "C17": {"modules": ["vf.h_wire", "vf.h_comms", "vf.h_wire2"], "harnesses": ["shm-wire-smt", "frame-sequences", "payload-roundtrip", "wire-pickle-json", "wire-cross-process"]},
    "C08": {"modules": ["vf.h_shm"], "harnesses": ["shm-step", "shm-step-preempt", "shm-server-dispatch", "shm-init", "shm-evict-liveness"]},
    "C09": {"modules": ["vf.h_shm", "vf.h_shmclient"], "harnesses": ["shm-step-bytes", "shm-evict-liveness", "shm-client-roundtrip"], "cpu_quick": 16 * 600.0},
}


def main(argv=None) -> int:
    ap = argparse.ArgumentParser(prog="vf")
    sub = ap.add_subparsers(dest="cmd", required=True)
    c = sub.add_parser("check")
    c.add_argument("pid")
    c.add_argument("--tier", default=os.environ.get("VERIF_TIER", "quick"), choices=["quick", "thorough"])
    c.add_argument("--jobs", type=int, default=int(os.environ.get("VF_JOBS", "16")))
    c.add_argument("--only", default=None, help="comma-separated harness names")
    r = sub.add_parser("replay")
    r.add_argument("file")
    sub.add_parser("list")
    a = ap.parse_args(argv)
    seed = int(os.environ.get("VERIF_SEED", "0") or 0)

    from vf import repo_env, runner

    repo_env.setup()
    if a.cmd == "list":
        for pid, d in sorted(PROPS.items()):
            print(pid, " ".join(d["harnesses"]))
        return 0
    if a.cmd == "check":
        d = PROPS.get(a.pid)
        if d is None:
            print(f"unknown or unclaimed property {a.pid}")
            return 2
        for m in d["modules"]:
            importlib.import_module(m)
        names = d["harnesses"]
        if a.only:
            names = [n for n in names if n in a.only.split(",")]
        hs = [runner.REGISTRY[n] for n in names]
        rc = runner.check_property(a.pid, hs, a.tier, seed, a.jobs, level=d.get("level", "other"),
                                   explanation=d.get("explanation", ""), cpu_total=d.get(f"cpu_{a.tier}"))
        print(f"[{a.pid}] tier={a.tier} exit={rc}")
        return rc
    if a.cmd == "replay":
        rep = json.load(open(a.file))
        pid = rep["property"]
        for m in PROPS[pid]["modules"]:
            importlib.import_module(m)
        h = runner.REGISTRY[rep["harness"]]
        h.setup()
        if hasattr(h, "replay"):
            ok, key, msg = h.replay(rep)
        else:
            from vf import engine_xh

            ok, key, msg = engine_xh.replay(h.body, rep["params"], rep["choices"])
        print(f"replay of {a.file}: violated={ok} key={key} {msg}")
        if ok:
            print(f"VIOLATION property={pid} replay={a.file}")
            return 1
        return 0
    return 2


if __name__ == "__main__":
    sys.exit(main())
