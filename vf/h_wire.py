"""C17 (shm part) -- cascade/shm/api.py translated to SMT (engine E2): acceptance over the admitted domain and
round-trip of everything accepted, for every message class in b2c; integers and string lengths unbounded."""

from __future__ import annotations

import importlib
import os
import time

import z3

from vf import repo_env
from vf.engine_smt import (ApiModel, Ctx, ISeq, Untranslatable, VEnum, VInt, VObj, VStr, concrete_seq)
from vf.runner import Harness, HarnessResult, register

repo_env.setup()

API_PATH = os.path.join(repo_env.SRC, "cascade", "shm", "api.py")
SIZE_MAX = 2**63  # admitted domain of sizes / free-space figures: any capacity a host can have
STR_MAX = 1024  # a message has to fit the 1024-byte datagram the client/server read
TIMEOUT_MS = 60_000

from vf.engine_smt import IS_ASCII as is_ascii  # noqa: E402


def symbolic_message(model: ApiModel, cname: str, suffix=""):
    fields, typing_, domain = {}, [], []
    for fname, ann in model.fields_of(cname):
        if ann == "str":
            s = z3.Const(f"{cname}.{fname}{suffix}", ISeq)
            fields[fname] = VStr(s)
            domain.append(is_ascii(s))
            domain.append(z3.Length(s) <= STR_MAX)
            for i in range(8):
                domain.append(z3.Implies(z3.Length(s) > i, s[i] < 128))
            for i in range(8):
                typing_.append(z3.Implies(z3.Length(s) > i, z3.And(s[i] >= 0, s[i] < 256)))
        elif ann == "int":
            n = z3.Int(f"{cname}.{fname}{suffix}")
            fields[fname] = VInt(n)
            domain.append(z3.And(n >= 0, n <= SIZE_MAX))
        elif ann in model.enums:
            n = z3.Int(f"{cname}.{fname}{suffix}")
            fields[fname] = VEnum(ann, n)
            typing_.append(z3.Or(*[n == v for v in model.enums[ann]]))
        else:
            raise Untranslatable(f"field {cname}.{fname}: {ann}")
    return VObj(cname, fields), typing_, domain


def _term(v):
    return v.t


def transport_limit(model) -> int:
    """The number of bytes the peers read per datagram: every `recv(N)` / `recvfrom(N)` in shm/server.py and shm/client.py (N a literal
    or a module-level integer constant of the api module). What lies beyond it never reaches the decoder."""
    import ast

    limits = []
    for fname in ("server.py", "client.py"):
        tree = ast.parse(open(os.path.join(os.path.dirname(API_PATH), fname)).read())
        for node in ast.walk(tree):
            if isinstance(node, ast.Call) and isinstance(node.func, ast.Attribute) and node.func.attr in ("recv", "recvfrom") and node.args:
                a = node.args[0]
                if isinstance(a, ast.Constant) and isinstance(a.value, int):
                    limits.append(a.value)
                elif isinstance(a, ast.Attribute) and a.attr in model.consts:
                    limits.append(model.consts[a.attr])
                elif isinstance(a, ast.Name) and a.id in model.consts:
                    limits.append(model.consts[a.id])
                else:
                    raise Untranslatable(f"size argument of {ast.unparse(node)[:60]} in {fname}")
    if not limits:
        raise Untranslatable("no recv/recvfrom call found in shm/server.py, shm/client.py")
    return min(limits)


class ShmWire(Harness):
    name = "shm-wire-smt"
    engine = "E2-smt"
    properties = ("C17",)
    rule = "one obligation = (message class, acceptance-over-domain | round-trip-of-accepted | translator agrees with real code on a literal message); non-trivial = the class has at least one field"
    assumptions = [
        "base-256 digits exist and are unique for 0 <= n < 256^k (discharged per width as a bit-vector lemma)",
        "is_ascii is an uninterpreted predicate: round-trip holds for every interpretation, acceptance is trivial for ASCII strings",
        f"admitted domain: sizes 0..2^63, ASCII strings of length <= {STR_MAX}, enum members, and the encoded message fits the datagram the peers read (the size is parsed from the recv/recvfrom calls of shm/server.py and shm/client.py)",
    ]
    outside = ["pickle / cloudpickle / orjson / pydantic-core internals (C code)", "fragmentation / loss of UDP datagrams below the size the peers read"]

    def functions(self):
        import cascade.shm.api as api

        return [api]

    def custom_run(self, tier, seed, jobs) -> HarnessResult:
        t0 = time.perf_counter()
        hr = HarnessResult(name=self.name, engine=self.engine)
        hr.rule, hr.assumptions, hr.outside = self.rule, list(self.assumptions), list(self.outside)
        hr.functions = repo_env.describe(self.functions())
        hr.bounds = {"integers": "unbounded (z3 Int)", "string_length": "unbounded for round-trip; <=1024 for acceptance", "solver_timeout_ms": TIMEOUT_MS}
        import cascade.shm.api as api

        importlib.reload(api)
        try:
            model = ApiModel(API_PATH)
        except Untranslatable as u:
            hr.crashes.append({"fatal": f"untranslatable construct: {u}"})
            return hr
        try:
            ShmWire.limit = self.limit = transport_limit(model)
        except Untranslatable as u:
            hr.crashes.append({"fatal": f"untranslatable construct: {u}"})
            return hr
        hr.bounds["datagram_bytes_read_by_the_peers"] = self.limit
        queries = 0
        tsolve = 0.0
        obligations = []

        cross = {"agree": 0, "no-answer": 0, "disagree": 0}

        def check(s: z3.Solver):
            nonlocal queries, tsolve
            s.set("timeout", TIMEOUT_MS)
            q0 = time.perf_counter()
            r = s.check()
            tsolve += time.perf_counter() - q0
            queries += 1
            if (tier == "thorough" or os.environ.get("VF_CVC5")) and str(r) in ("sat", "unsat"):
                # second opinion from an independent solver (cvc5 binary) on the same SMT-LIB text
                import subprocess
                import tempfile

                with tempfile.NamedTemporaryFile("w", suffix=".smt2", delete=False) as fh:
                    fh.write("(set-logic ALL)\n" + s.to_smt2())
                    path = fh.name
                try:
                    q1 = time.perf_counter()
                    out = subprocess.run(["timeout", "120", "cvc5", "--strings-exp", path], capture_output=True, text=True).stdout.strip().split("\n")[0]
                    tsolve += time.perf_counter() - q1
                    queries += 1
                finally:
                    os.unlink(path)
                if out in ("sat", "unsat"):
                    cross["agree" if out == str(r) else "disagree"] += 1
                    if out != str(r):
                        hr.crashes.append({"fatal": f"z3 says {r}, cvc5 says {out} on the same query"})
                else:
                    cross["no-answer"] += 1
            return str(r)

        # digit lemma per width used
        for k in (1, 4, 8):
            b = z3.BitVec("b", 8 * k)
            s = z3.Solver()
            digits = [z3.Extract(8 * (k - i) - 1, 8 * (k - 1 - i), b) for i in range(k)]
            s.add(z3.Concat(*digits) != b if k > 1 else digits[0] != b)
            r = check(s)
            obligations.append({"kind": "digit-lemma", "width": k, "result": r})
            if r != "unsat":
                hr.crashes.append({"fatal": f"digit lemma width {k}: {r}"})
        # tag table
        real_b2c = {k[0]: v.__name__ for k, v in api.b2c.items()}
        if real_b2c != model.b2c:
            hr.crashes.append({"fatal": f"b2c parsed from the AST differs from the imported module: {model.b2c} vs {real_b2c}"})
        if {v: k for k, v in api.b2c.items()} != api.c2b or len(set(api.b2c.values())) != len(api.b2c):
            hr.failures.append(self._fail("tag-table-not-bijective", "c2b is not the inverse of b2c", {"class": None}, True))
        # every message class of the module (a class that defines, or inherits from a class of this module that defines, both
        # ser and deser) needs exactly one wire tag: a class the tables do not know cannot be sent at all
        for cname in self._message_classes(model):
            tags = [t for t, c in model.b2c.items() if c == cname]
            ob = {"kind": "has-wire-tag", "class": cname, "result": "agree" if len(tags) == 1 else "differ", "has_fields": bool(model.fields_of(cname))}
            obligations.append(ob)
            if len(tags) != 1:
                lit = self._any_instance(api, model, cname)
                ok, why = self.replay_accept(api, lit)
                hr.failures.append(self._fail(f"{cname}-has-no-wire-tag", f"{lit!r}: {why}", {"kind": "accept", "class": cname, "fields": self._fields(lit)}, ok))
        for tag, cname in sorted(model.b2c.items()):
            # concrete boundary literals through the real code first (independent of the translator): whatever the
            # encoder accepts has to come back unchanged
            for lit in self._boundary_literals(api, model, cname):
                ok, why = self.replay_roundtrip(api, lit)
                obligations.append({"kind": "boundary-literal", "class": cname, "msg": repr(lit)[:80], "result": "differ" if ok else "agree", "has_fields": True})
                if ok:
                    hr.failures.append(self._fail(f"{cname}-roundtrip", f"{lit!r}: {why}", {"kind": "roundtrip", "class": cname, "fields": self._fields(lit)}, True))
            # ... and whatever lies in the admitted domain has to be accepted (again through the real code, so that this part of the
            # verdict does not depend on the translator being able to follow the source)
            for lit in self._domain_literals(api, model, cname):
                bad, why = self.replay_accept(api, lit)
                if not bad:
                    bad, why = self.replay_roundtrip(api, lit)
                    key = f"{cname}-roundtrip"
                    kind = "roundtrip"
                else:
                    key = f"{cname}-rejects-domain-value"
                    kind = "accept"
                obligations.append({"kind": "domain-literal", "class": cname, "msg": repr(lit)[:80], "result": "differ" if bad else "agree", "has_fields": True})
                if bad:
                    hr.failures.append(self._fail(key, f"{lit!r}: {why}", {"kind": kind, "class": cname, "fields": self._fields(lit)}, True))
            try:
                self._class_obligations(model, api, cname, hr, check, obligations)
            except Untranslatable as u:
                hr.crashes.append({"fatal": f"untranslatable construct in {cname}: {u}"})
        hr.evaluations = len(obligations)
        hr.nontrivial = len({(o.get("class"), o["kind"], str(o.get("msg"))) for o in obligations if o.get("class") and o.get("has_fields")})
        hr.exhaustive = all(o["result"] in ("unsat", "agree", "sat-known") for o in obligations) and not hr.crashes
        for o in obligations:
            if o["result"] in ("unknown",):
                hr.inconclusive.append(o)
        hr.samples = [o for o in obligations if o["kind"] != "digit-lemma"][:3]
        hr.solver_queries, hr.solver_seconds = queries, tsolve
        hr.detail = {"second_solver_cvc5": cross, "obligations": len(obligations), "discharged": sum(1 for o in obligations if o["result"] in ("unsat", "agree")),
                     "classes": sorted(model.b2c.values())}
        hr.wall_s = time.perf_counter() - t0
        return hr

    def _fail(self, key, msg, replay, reproduced):
        return {"key": key, "msg": msg, "reproduced": reproduced, "replay_msg": "", "replay": {"harness": self.name, **replay}}

    def _class_obligations(self, model, api, cname, hr, check, obligations):
        obj, typing_, domain = symbolic_message(model, cname)
        has_fields = bool(obj.fields)
        enc = Ctx()
        wire = model.call_function(model.funcs["ser"], [obj], enc)
        enc_accept = list(enc.accept)
        # (a) every value of the admitted domain is accepted by the encoder
        s = z3.Solver()
        s.add(*typing_, *domain)
        s.add(*enc.defs)
        s.add(z3.Length(wire.t) <= self.limit)  # the admitted domain: messages that fit the datagram the peers read
        s.add(z3.Not(z3.And(*enc_accept)) if enc_accept else z3.BoolVal(False))
        r = check(s)
        ob = {"kind": "domain-accepted", "class": cname, "result": r, "has_fields": has_fields}
        obligations.append(ob)
        if r == "sat":
            msg = self._concrete(api, model, cname, obj, s.model())
            ok, why = self.replay_accept(api, msg)
            ob["msg"] = repr(msg)
            hr.failures.append(self._fail(f"{cname}-rejects-domain-value", f"{msg!r}: {why}", {"kind": "accept", "class": cname, "fields": self._fields(msg)}, ok))
        # (b) everything accepted decodes to the same message
        dec = Ctx()
        dec.n = 10_000
        back = model.call_function(model.funcs["deser"], [type(wire)(wire.t)], dec)
        dec_accept = list(dec.accept)
        same = []
        if not isinstance(back, VObj) or back.cls != cname:
            same.append(z3.BoolVal(False))
        else:
            for fname, v in obj.fields.items():
                same.append(v.t == back.fields[fname].t)
        # (b0) nothing the encoder accepts is longer than what the peers read per datagram (recv(N) silently drops the rest)
        # decided on the length abstraction: every Length(<string field>) becomes an integer variable (dropping the link to the
        # string's contents only weakens the constraints, so unsat carries over; a model is turned into a message and replayed)
        lens = {fname: z3.Int(f"len!{cname}.{fname}") for fname, v in obj.fields.items() if isinstance(v, VStr)}
        subs = [(z3.Length(obj.fields[f].t), L) for f, L in lens.items()]
        conj = z3.simplify(z3.And(*typing_, *enc.defs, *enc_accept, z3.Length(wire.t) > self.limit), som=False)
        s = z3.Solver()
        s.add(z3.substitute(conj, *subs) if subs else conj)
        s.add(*[L >= 0 for L in lens.values()])
        r = check(s)
        ob = {"kind": "accepted-fits-the-datagram", "class": cname, "result": r, "has_fields": has_fields}
        obligations.append(ob)
        if r == "sat":
            m = s.model()
            kw = {}
            for fname, v in obj.fields.items():
                if isinstance(v, VStr):
                    kw[fname] = "k" * m.eval(lens[fname], model_completion=True).as_long()
                elif isinstance(v, VEnum):
                    kw[fname] = list(getattr(api, v.enum))[0]
                else:
                    x = m.eval(v.t, model_completion=True).as_long()
                    kw[fname] = x if 0 <= x <= SIZE_MAX else 1
            msg = getattr(api, cname)(**kw)
            ok, why = self.replay_roundtrip(api, msg)
            ob["msg"] = repr(msg)[:120]
            hr.failures.append(self._fail(f"{cname}-roundtrip", f"{repr(msg)[:120]}...: {why}", {"kind": "roundtrip", "class": cname, "fields": self._fields(msg)}, ok))
        # (b) ... and what fits is decoded as the same message
        s = z3.Solver()
        s.add(*typing_)
        s.add(*enc.defs, *enc_accept)
        s.add(z3.Length(wire.t) <= self.limit)
        s.add(z3.Not(z3.And(*(dec_accept + same))) if (dec_accept + same) else z3.BoolVal(False))
        r = check(s)
        ob = {"kind": "accepted-roundtrips", "class": cname, "result": r, "has_fields": has_fields}
        obligations.append(ob)
        if r == "sat":
            msg = self._concrete(api, model, cname, obj, s.model())
            ok, why = self.replay_roundtrip(api, msg)
            ob["msg"] = repr(msg)
            hr.failures.append(self._fail(f"{cname}-roundtrip", f"{msg!r}: {why}", {"kind": "roundtrip", "class": cname, "fields": self._fields(msg)}, ok))
        # (c) the translator agrees with the real code on literal messages
        for lit in self._literals(api, model, cname):
            try:
                real = api.ser(lit)
            except Exception:
                continue
            cobj = self._as_terms(model, cname, lit)
            c = Ctx()
            w = model.call_function(model.funcs["ser"], [cobj], c)
            s = z3.Solver()
            s.add(*c.defs)
            r = check(s)
            got = concrete_seq(s.model().eval(w.t, model_completion=True)) if r == "sat" else None
            agree = got == list(real)
            back_real = api.deser(real)
            same_real = type(back_real) is type(lit) and getattr(back_real, "__dict__", {}) == getattr(lit, "__dict__", {})
            obligations.append({"kind": "translator-vs-real", "class": cname, "msg": repr(lit), "result": "agree" if agree and same_real else "differ", "has_fields": has_fields})
            if not agree:
                hr.crashes.append({"fatal": f"translator disagrees with real api.ser on {lit!r}: {got} vs {list(real)}"})
            elif not same_real:
                hr.failures.append(self._fail(f"{cname}-roundtrip", f"{lit!r} decodes as {back_real!r}", {"kind": "roundtrip", "class": cname, "fields": self._fields(lit)}, True))

    # ---- concrete side -----------------------------------------------------------------
    def _fields(self, msg):
        out = {}
        for k, v in getattr(msg, "__dict__", {}).items():
            out[k] = int(v) if isinstance(v, int) else v
        return out

    def _concrete(self, api, model, cname, obj, m):
        kw = {}
        for fname, v in obj.fields.items():
            if isinstance(v, VStr):
                seq = concrete_seq(m.eval(v.t, model_completion=True)) or []
                kw[fname] = "".join(chr(c) if 0 <= c < 0x110000 else "?" for c in seq)
            elif isinstance(v, VEnum):
                kw[fname] = getattr(api, v.enum)(m.eval(v.t, model_completion=True).as_long())
            else:
                kw[fname] = m.eval(v.t, model_completion=True).as_long()
        return getattr(api, cname)(**kw)

    def _as_terms(self, model, cname, lit):
        from vf.engine_smt import seq_of

        fields = {}
        for fname, ann in model.fields_of(cname):
            v = getattr(lit, fname)
            if ann == "str":
                fields[fname] = VStr(seq_of([ord(c) for c in v]))
            elif ann == "int":
                fields[fname] = VInt(z3.IntVal(v))
            else:
                fields[fname] = VEnum(ann, z3.IntVal(v.value))
        return VObj(cname, fields)

    def _message_classes(self, model):
        def methods(cname, seen=()):
            c = model.classes.get(cname)
            if c is None or cname in seen:
                return set()
            out = {st.name for st in c.body if isinstance(st, __import__("ast").FunctionDef)}
            for b in c.bases:
                out |= methods(__import__("ast").unparse(b), seen + (cname,))
            return out

        out = []
        for cname, c in model.classes.items():
            bases = [__import__("ast").unparse(b) for b in c.bases]
            if "Protocol" in bases or "Enum" in bases:
                continue
            if {"ser", "deser"} <= methods(cname):
                # a base class that only exists to be inherited from (it has subclasses in the module) is not itself a message
                if any(cname in [__import__("ast").unparse(b) for b in o.bases] for o in model.classes.values()):
                    continue
                out.append(cname)
        return out

    def _any_instance(self, api, model, cname):
        kw = {}
        for fname, ann in model.fields_of(cname):
            kw[fname] = "k" if ann == "str" else (1 if ann == "int" else list(getattr(api, ann))[0])
        return getattr(api, cname)(**kw)

    def _domain_literals(self, api, model, cname):
        fl = model.fields_of(cname)
        if not fl:
            return []
        cls = getattr(api, cname)
        out = []
        for sval, ival in [("", 0), ("k", 2**32 - 1), ("key", 2**32), ("x" * 40, 2**40 + 5), ("\x7f", 2**63)]:
            for ei in range(max([len(list(getattr(api, ann))) for _, ann in fl if ann not in ("str", "int")] + [1])):
                kw = {}
                for fname, ann in fl:
                    kw[fname] = sval if ann == "str" else (ival if ann == "int" else list(getattr(api, ann))[ei])
                out.append(cls(**kw))
        return out

    def _boundary_literals(self, api, model, cname):
        fl = model.fields_of(cname)
        if not fl:
            return []
        cls = getattr(api, cname)
        out = []
        for sval, ival in [("é", 2**32), ("données", 2**63), ("a\u20acb", 2**64 - 1), ("\x7f", 2**64), ("ok", -1), ("k" * 1100, 5), ("k" * 1015, 5), ("f", 1536.5), ("f", 2**32 + 0.75), ("f", -0.5)]:
            kw = {}
            for fname, ann in fl:
                kw[fname] = sval if ann == "str" else (ival if ann == "int" else list(getattr(api, ann))[0])
            out.append(cls(**kw))
        return out

    def _literals(self, api, model, cname):
        import itertools

        fl = model.fields_of(cname)
        pools = []
        for fname, ann in fl:
            if ann == "str":
                pools.append(["", "a", "key-0123456789abcdef01234"])
            elif ann == "int":
                pools.append([0, 1, 255, 256, 2**31, 2**32 - 1])
            else:
                pools.append(list(getattr(api, ann)))
        cls = getattr(api, cname)
        out = []
        for i, combo in enumerate(itertools.product(*pools)):
            if i % 7 and len(fl) > 2:
                continue
            out.append(cls(**{f[0]: v for f, v in zip(fl, combo)}))
        return out[:12]

    @staticmethod
    def replay_accept(api, msg):
        try:
            api.ser(msg)
        except Exception as e:
            return True, f"encoder raises {type(e).__name__}: {e}"
        return False, "encoder accepted it"

    @staticmethod
    def replay_roundtrip(api, msg):
        try:
            b = api.ser(msg)
        except Exception as e:
            return False, f"encoder raises {type(e).__name__}"
        b = b[: ShmWire.limit] if getattr(ShmWire, "limit", None) else b  # what recv(N) hands to the decoder
        try:
            back = api.deser(b)
        except Exception as e:
            return True, f"decoder raises {type(e).__name__}: {e}"
        if type(back) is not type(msg) or getattr(back, "__dict__", {}) != getattr(msg, "__dict__", {}):
            return True, f"decodes as {back!r}"
        return False, "round-trips"

    def replay(self, rep):
        import cascade.shm.api as api

        ShmWire.limit = transport_limit(ApiModel(API_PATH))

        cls = getattr(api, rep["class"])
        kw = dict(rep["fields"])
        for fname, ann in [(f.name, f.type) for f in __import__("dataclasses").fields(cls)]:
            if ann not in ("str", "int", str, int):
                kw[fname] = getattr(api, "DatasetStatus")(kw[fname])
        msg = cls(**kw)
        ok, why = (self.replay_accept if rep["kind"] == "accept" else self.replay_roundtrip)(api, msg)
        return ok, rep.get("key", ""), why


register(ShmWire())
