"""C05 (Python-level failure chain only) -- healthcheck, executor recv_loop, execute_sequence, Bridge.recv_events and the
controller loop under an injected failure.  Real processes, signals and /dev/shm are outside this technique."""

from __future__ import annotations

import itertools
import pickle
import types

from vf import fakezmq, repo_env
from vf.engine_xh import Violation
from vf.runner import Harness, register

repo_env.setup()
from vf import h_comms, h_ctrl, sim_cluster  # noqa: E402
from vf.h_comms import CLOCK, CTRL, DATA, EXEC, W0, FakeProc, StopStep, make_bridge, make_executor  # noqa: E402
import cascade.executor.bridge as bridge_mod  # noqa: E402
import cascade.executor.comms as comms  # noqa: E402
import cascade.executor.executor as executor_mod  # noqa: E402
import cascade.executor.runner.entrypoint as entrypoint  # noqa: E402
import cascade.executor.serde as serde  # noqa: E402
import cascade.controller.impl as impl  # noqa: E402
from cascade.executor import msg as M  # noqa: E402
from cascade.low.core import DatasetId, JobInstance, TaskDefinition, TaskInstance, WorkerId  # noqa: E402

_shm_calls = []
executor_mod.shm_client = types.SimpleNamespace(shutdown=lambda: _shm_calls.append("shutdown"), ensure=lambda: None)
repo_env.STUBS_IN_FORCE.append("executor.shm_client -> recorder (shutdown/ensure); child processes are inert objects with a chosen exitcode")


class Proc(FakeProc):
    def __init__(self, exitcode):
        self.exitcode = exitcode
        self.killed = False

    def is_alive(self):
        return self.exitcode is None

    def kill(self):
        self.killed = True

    def join(self):
        # a live process that was told to stop (WorkerShutdown / shm shutdown) exits cleanly
        if self.exitcode is None:
            self.exitcode = 0


def controller_inbox():
    out = []
    for frames in fakezmq.NET.queues.get(CTRL, []):
        out.append(pickle.loads(frames[-1]))
    return out


class Health(Harness):
    name = "fail-healthcheck"
    engine = "E1-crosshair"
    properties = ("C05",)
    rule = "one path = (which children are dead, sign class of their symbolic exit codes); non-trivial = some child has exited"
    assumptions = ["exit codes are arbitrary integers (symbolic) or None (running)"]
    outside = ["real processes: kill -9, zombies, leftover /dev/shm segments, signal/atexit behaviour, wall-clock bounds"]

    def shards(self, tier):
        return [{"dead": list(d), "terminating": t} for d in itertools.product([0, 1], repeat=4) for t in (False, True)]

    def budget(self, tier):
        return 60.0

    def bounds(self, tier):
        return {"children": "2 workers + shm server + data server", "exit_codes": "unbounded symbolic integers (0 included)", "executor": "running / already terminating"}

    def functions(self):
        return [executor_mod.Executor.healthcheck]

    def body(self, ch, params):
        fakezmq.NET.reset()
        CLOCK.now = 1_000_000_000_000
        ex = make_executor()
        codes = []
        for i, dead in enumerate(params["dead"]):
            codes.append(ch.int(f"code{i}", None, None) if dead else None)
        w1 = WorkerId("h0", "w1")
        ex.workers = {W0: Proc(codes[0]), w1: Proc(codes[1])}
        ex.shm_process, ex.data_server = Proc(codes[2]), Proc(codes[3])
        ex.terminating = params["terminating"]
        raised = False
        try:
            ex.healthcheck()
        except ValueError:
            raised = True
        # while the executor runs, a child that is gone -- whatever its exit code: a task body may call sys.exit(0) -- is a failure;
        # once the executor is shutting down, children that exited cleanly are what is expected
        must = False
        may = False
        for c in codes:
            if c is not None:
                if c != 0:
                    may = True
                    if not params["terminating"]:
                        must = True
                elif not params["terminating"]:
                    must = True
        ch.note("nontrivial", any(c is not None for c in codes))
        ch.note("fingerprint", (tuple(params["dead"]), params["terminating"], must, may))
        if must and not raised:
            raise Violation("dead-child-not-detected", f"children exited {params['dead']} (an exit code may be 0) while the executor is running -> healthcheck returned normally")
        if raised and not (must or may):
            raise Violation("healthy-children-reported-dead", f"terminating={params['terminating']}")


class ExecLoop(Harness):
    name = "fail-executor-loop"
    engine = "E1-crosshair"
    properties = ("C05",)
    rule = "one path = (message handled by the executor, which child is dead with which exit code class, repeated iterations); non-trivial = a failure is present"
    assumptions = ["children are inert objects", "the loop is stepped one iteration at a time"]
    outside = Health.outside

    def shards(self, tier):
        return [{"msg": m, "dead": d} for m in range(6) for d in range(4)]

    def budget(self, tier):
        return 60.0

    def bounds(self, tier):
        return {"messages": ["none", "TaskSequence to live worker", "TaskSequence to worker that exited with 1", "unsupported message", "ExecutorShutdown", "TaskSequence to worker that exited with 0"], "dead_child": ["none", "worker", "shm server", "data server"], "iterations": 3}

    def functions(self):
        return [executor_mod.Executor.recv_loop, executor_mod.Executor.healthcheck, executor_mod.Executor.terminate, executor_mod.Executor.to_controller]

    def body(self, ch, params):
        with ch.untraced():
            fakezmq.NET.reset()
            _shm_calls.clear()
            CLOCK.now = 1_000_000_000_000
            ex = make_executor()
            code = [None, 1, -9, 3, 0][ch.pick(5, "code")] if params["dead"] else None
            if params["dead"] and code is None:
                ch.assume(False)
            procs = {"worker": Proc(code if params["dead"] == 1 else None), "shm": Proc(code if params["dead"] == 2 else None), "data": Proc(code if params["dead"] == 3 else None)}
            ex.workers = {W0: procs["worker"]}
            ex.shm_process, ex.data_server = procs["shm"], procs["data"]
            ts = M.TaskSequence(worker=W0, tasks=["t"], publish=set())
            m = params["msg"]
            if m in (1, 2, 5):
                if m == 2:
                    procs["worker"].exitcode = 1
                if m == 5:
                    procs["worker"].exitcode = 0  # e.g. a task body called sys.exit(0) after publishing
                fakezmq.NET.q(EXEC).append([serde.ser_message(M.Syn(0, CTRL)), serde.ser_message(ts)])
            elif m == 3:
                fakezmq.NET.q(EXEC).append([serde.ser_message(M.WorkerReady(W0))])
            elif m == 4:
                fakezmq.NET.q(EXEC).append([serde.ser_message(M.Syn(0, CTRL)), serde.ser_message(M.ExecutorShutdown())])
            failure_present = params["dead"] != 0 or m in (2, 3, 5)
            for it in range(3):
                ex.mlistener.calls = 0
                if ex.terminating:
                    break
                try:
                    ex.recv_loop()
                except StopStep:
                    pass
                except Exception as e:
                    raise Violation("executor-loop-raised", f"{type(e).__name__}: {e}")
            inbox = controller_inbox()
            fails = [x for x in inbox if isinstance(x, M.ExecutorFailure)]
            exits = [x for x in inbox if isinstance(x, M.ExecutorExit)]
            ch.note("nontrivial", failure_present)
            ch.note("case", {"msg": m, "dead": params["dead"], "code": code})
            if failure_present and m != 4:
                if len(fails) != 1:
                    raise Violation("failure-not-reported-exactly-once", f"{len(fails)} ExecutorFailure messages for msg={m} dead={params['dead']} code={code}")
                if not ex.terminating:
                    raise Violation("executor-keeps-running-after-failure")
            if not failure_present:
                if fails:
                    raise Violation("spurious-failure-report", str(fails[0]))
            if m == 4 and len(exits) != 1:
                raise Violation("shutdown-not-confirmed-once", f"{len(exits)}")
            wq = fakezmq.NET.queues.get("ipc:///tmp/h0.w0.socket", [])
            if m in (2, 5) and any(isinstance(pickle.loads(f[0]), M.TaskSequence) for f in wq):
                raise Violation("task-sequence-forwarded-to-dead-worker", f"worker exit code {procs['worker'].exitcode}")
            if ex.terminating:
                # terminate() ran: live children were told to stop
                if procs["worker"].exitcode is None or True:
                    if not any(isinstance(pickle.loads(f[0]), M.WorkerShutdown) for f in wq):
                        raise Violation("worker-not-told-to-stop")
                if procs["shm"].exitcode is None and "shutdown" not in _shm_calls:
                    raise Violation("shm-server-left-running")
                if procs["data"].exitcode is None and not procs["data"].killed:
                    raise Violation("data-server-left-running")
                # re-entry is idempotent
                n0 = len(_shm_calls)
                ex.terminate()
                if len(_shm_calls) != n0:
                    raise Violation("terminate-not-idempotent")


def boom(*a, **k):
    raise RuntimeError("task body failed")


def fine(*a, **k):
    return "ok"


class TaskFail(Harness):
    name = "fail-task-body"
    engine = "E1-crosshair"
    properties = ("C05",)
    rule = "one path = (length of the task sequence, index of the task whose body raises, exception kind); non-trivial = some body raises"
    assumptions = ["memory/shm replaced by the simulated host store; callback recorded"]
    outside = Health.outside

    def shards(self, tier):
        return [{"n": n} for n in (1, 2, 3)]

    def budget(self, tier):
        return 60.0

    def bounds(self, tier):
        return {"tasks_in_sequence": "1..3", "failing_index": "none or any", "exception": ["RuntimeError", "SystemExit"]}

    def functions(self):
        return [entrypoint.execute_sequence, entrypoint.RunnerContext.project]

    def body(self, ch, params):
        with ch.untraced():
            sim_cluster.install()
            n = params["n"]
            fail_at = ch.pick(n + 1, "fail_at") - 1
            kind = ch.pick(2, "kind") if fail_at >= 0 else 0

            def exits(*a, **k):
                raise SystemExit(3)

            tasks = {}
            for i in range(n):
                f = fine if i != fail_at else (boom if kind == 0 else exits)
                d = TaskDefinition(func=TaskDefinition.func_enc(f), environment=[], entrypoint="", input_schema={}, output_schema={"0": "Any"})
                tasks[f"t{i}"] = TaskInstance(definition=d, static_input_kw={}, static_input_ps={})
            job = JobInstance(tasks=tasks, edges=[])
            sent = []
            sim_cluster._CALLBACK_SINK["fn"] = lambda addr, m: sent.append(m)
            entrypoint.callback = lambda addr, m: sent.append(m)
            store = sim_cluster.HostStore("h0")
            sim_cluster.SHIM.current = store
            from cascade.executor.runner.memory import Memory

            mem = Memory("cb", W0)
            ctx = entrypoint.RunnerContext(workerId=W0, job=job, callback="cb", param_source={f"t{i}": {} for i in range(n)})
            ts = M.TaskSequence(worker=W0, tasks=[f"t{i}" for i in range(n)], publish={DatasetId(f"t{i}", "0") for i in range(n)})
            pckg = types.SimpleNamespace(extend=lambda env: None)
            exited = False
            try:
                entrypoint.execute_sequence(ts, mem, pckg, ctx)
            except SystemExit:
                exited = True  # the worker process dies: the executor's healthcheck has to notice (fail-healthcheck)
            except Exception as e:
                raise Violation("execute_sequence-raised", f"{type(e).__name__}: {e}")
            fails = [m for m in sent if isinstance(m, M.TaskFailure)]
            pubs = [m.ds.task for m in sent if isinstance(m, M.DatasetPublished)]
            ch.note("nontrivial", fail_at >= 0)
            ch.note("case", {"n": n, "fail_at": fail_at, "kind": ["RuntimeError", "SystemExit"][kind]})
            if fail_at < 0:
                if fails or pubs != [f"t{i}" for i in range(n)]:
                    raise Violation("healthy-sequence-misreported", f"{fails} {pubs}")
                return
            if pubs != [f"t{i}" for i in range(fail_at)]:
                raise Violation("output-of-failed-or-later-task-published", str(pubs))
            if kind == 0:
                if len(fails) != 1 or fails[0].task != f"t{fail_at}" or fails[0].worker != W0:
                    raise Violation("task-failure-not-reported", f"{fails}")
            elif not exited and not fails:
                raise Violation("sys-exit-swallowed", "neither a TaskFailure nor the process exit")


ALL_MSGS = None


def all_msgs():
    ds = DatasetId("t", "0")
    hdr = M.DatasetTransmitPayloadHeader(confirm_address="a", confirm_idx=0, ds=ds, deser_fun="cloudpickle.loads")
    return [
        ("event-published", M.DatasetPublished(origin=W0, ds=ds, transmit_idx=None)), ("event-payload", M.DatasetTransmitPayload(hdr, b"v")), ("ack", M.Ack(idx=99)),
        ("registration", M.ExecutorRegistration(host="h0", maddress=EXEC, daddress=DATA, workers=[])), ("task-failure", M.TaskFailure(worker=W0, task="t", detail="x")),
        ("executor-failure", M.ExecutorFailure(host="h0", detail="x")), ("transmit-failure", M.DatasetTransmitFailure(host="h0", detail="x")), ("executor-exit", M.ExecutorExit(host="h0")),
        ("unsupported-task-sequence", M.TaskSequence(worker=W0, tasks=[], publish=set())), ("unsupported-purge", M.DatasetPurge(ds=ds)),
        ("unsupported-command", M.DatasetTransmitCommand(source="a", target="b", daddress="x", ds=ds, idx=1)), ("unsupported-shutdown", M.ExecutorShutdown()),
        ("unknown-worker-ready", M.WorkerReady(W0)), ("unknown-worker-shutdown", M.WorkerShutdown()), ("unknown-syn", M.Syn(5, "x")),
    ]


class BridgeFail(Harness):
    name = "fail-bridge-events"
    engine = "E1-crosshair"
    properties = ("C05",)
    rule = "one path = a batch of <=3 messages from all 15 message classes arriving at the bridge; non-trivial = the batch contains a failure or unsupported message"
    assumptions = ["messages arrive un-framed (local callback form); framing is covered by frame-sequences"]
    outside = Health.outside

    def shards(self, tier):
        n = len(all_msgs())
        return [{"first": i, "len": L} for i in range(n) for L in (1, 2, 3 if tier == "thorough" else 2)][: None]

    def budget(self, tier):
        return 60.0

    def bounds(self, tier):
        return {"batch": "1..2 messages" if tier == "quick" else "1..3 messages", "classes": [k for k, _ in all_msgs()]}

    def functions(self):
        return [bridge_mod.Bridge.recv_events]

    def body(self, ch, params):
        with ch.untraced():
            fakezmq.NET.reset()
            CLOCK.now = 1_000_000_000_000
            br = make_bridge()
            shutdowns = []
            br.shutdown = lambda: shutdowns.append(1)
            msgs = all_msgs()
            batch = [msgs[params["first"]]] + [msgs[ch.pick(len(msgs), f"m{i}")] for i in range(1, params["len"])]
            for _, m in batch:
                fakezmq.NET.q(CTRL).append([serde.ser_message(m)])
            kinds = [k for k, _ in batch]
            bad = [k for k in kinds if not (k.startswith("event") or k in ("ack", "registration"))]
            has_event = any(k.startswith("event") for k in kinds)
            br.mlistener.calls = 0
            got, err = None, None
            try:
                got = br.recv_events()
            except StopStep:
                got = "no-return"
            except ValueError as e:
                err = e
            except Exception as e:
                raise Violation("recv_events-raised-unexpected-type", f"{type(e).__name__}: {e} for {kinds}")
            ch.note("nontrivial", bool(bad))
            ch.note("batch", kinds)
            if bad:
                if err is None:
                    raise Violation("failure-message-did-not-end-the-run", f"{kinds} -> {got!r}")
                if len(shutdowns) != 1:
                    raise Violation("executors-not-shut-down-on-failure", f"{len(shutdowns)} shutdown calls for {kinds}")
            else:
                if err is not None:
                    raise Violation("healthy-batch-raised", f"{kinds}: {err}")
                if has_event:
                    if got == "no-return" or any(not isinstance(e, (M.DatasetPublished, M.DatasetTransmitPayload)) for e in got):
                        raise Violation("non-event-returned-to-controller", f"{kinds} -> {got!r}")
                    if len(got) != sum(1 for k in kinds if k.startswith("event")):
                        raise Violation("event-lost-or-duplicated", f"{kinds} -> {got!r}")


class CtrlFail(h_ctrl.Ctrl):
    """The controller loop with recv_events failing at a solver-chosen call: run propagates, shuts down once, no wrong value."""

    def __init__(self):
        super().__init__("fail-controller-run", "C05", set())
        self.rule = "one path = (DAG, outputs, scheduling decisions, the recv_events call at which the bridge fails); non-trivial = >=2 tasks"

    def shards(self, tier):
        out = []
        for hosts in ("1x1", "2x1"):
            for n in (1, 2):
                for multi in itertools.product([0, 1], repeat=n):
                    out.append({"n": n, "multi": list(multi), "hosts": hosts, "K": 2 if tier == "quick" else 4})
        return out

    def budget(self, tier):
        return 80.0 if tier == "quick" else 600.0

    def body(self, ch, params):
        job, spec, sim, state, crashed, oracle = h_ctrl.run_controller(ch, params, set(), fail_point=True)
        with ch.untraced():
            failed = sim.fail_at is not None and sim.recv_calls > sim.fail_at
            if failed:
                if crashed is None:
                    raise Violation("bridge-failure-swallowed-by-controller", "recv_events raised but run() returned normally")
                if sim.shutdowns < 1:
                    raise Violation("no-shutdown-after-failure")
            else:
                if crashed is not None:
                    raise Violation(f"controller-raised-{type(crashed).__name__}", str(crashed)[:200])
                for (j, o) in spec["ext"]:
                    if state.outputs[DatasetId(f"t{j}", o)] != oracle[(j, o)]:
                        raise Violation("wrong-value-delivered")


register(Health())
register(ExecLoop())
register(TaskFail())
register(BridgeFail())
register(CtrlFail())
