#!/bin/bash
# Builds /verif/.venv from files on disk only: /venv's interpreter + site-packages overlay + crosshair-tool and z3 from the wheelhouse.
set -e
HERE="$(cd "$(dirname "${BASH_SOURCE[0]}")" && pwd)"
VENV="$HERE/.venv"
if [ -x "$VENV/bin/python" ] && "$VENV/bin/python" -c "import crosshair, z3, numpy" 2>/dev/null; then
  echo "venv ok"; exit 0
fi
(
  flock 9
  if [ -x "$VENV/bin/python" ] && "$VENV/bin/python" -c "import crosshair, z3, numpy" 2>/dev/null; then exit 0; fi
  rm -rf "$VENV"
  /venv/bin/python -m venv "$VENV"
  SP="$("$VENV/bin/python" -c 'import site; print(site.getsitepackages()[0])')"
  echo "import site; site.addsitedir('/venv/lib/python3.12/site-packages')" > "$SP/_venv_overlay.pth"
  PIP_NO_INDEX=1 "$VENV/bin/pip" install -q --no-index --find-links /opt/veriftools/wheels crosshair-tool z3-solver
) 9>"$HERE/.venv.lock"
"$VENV/bin/python" -c "import crosshair, z3, numpy; print('venv built')"
