"""C05 demonstration (adapted from an independent sub-agent's demo): a task body that calls sys.exit(0)
must make the controller's run end with an error within a bounded time.

A real one-host cluster is started (executor + 2 workers + shm server + data server, controller
in the driver process). The only task of the job sends SIGTERM to its own (worker) process and
would then sleep for a long time. The requested output can never be produced, so
`cascade.controller.impl.run` has to raise within the deadline.

exit 0: run ended with an error within the deadline
exit 1: run did not end (hang) or ended without an error
"""

import json
import os
import random
import signal
import socket
import subprocess
import sys
import tempfile
import time

ROOT = os.environ.get("REPO_ROOT", "/repo")
sys.path.insert(0, ROOT + "/src")

RUN_DEADLINE_S = 45


# ---------------------------------------------------------------- task payloads
def victim() -> int:
    import os
    import signal
    import time

    import sys; sys.exit(0)  # a task body that calls sys.exit(0)
    time.sleep(120)
    return 1


# ---------------------------------------------------------------- cluster driver (child process)
def launch_executor(job, controller_address, port_base, host, workers):
    from logging.config import dictConfig

    from cascade.executor.config import logging_config
    from cascade.executor.executor import Executor

    dictConfig(logging_config)
    executor = Executor(job, controller_address, workers, host, port_base)
    executor.register()
    executor.recv_loop()


def cluster_main(host: str, port: int, result_path: str) -> None:
    import cascade
    import cascade.controller.impl as impl

    assert cascade.__file__.startswith(ROOT), cascade.__file__
    assert impl.__file__.startswith(ROOT), impl.__file__
    from multiprocessing import Process

    from cascade.executor.bridge import Bridge
    from cascade.low.builders import JobBuilder, TaskBuilder
    from cascade.low.core import DatasetId
    from cascade.scheduler.graph import precompute

    def report(**kw):
        with open(result_path, "a") as f:
            f.write(json.dumps(kw) + "\n")

    job = (
        JobBuilder()
        .with_node("victim", TaskBuilder.from_callable(victim))
        .build()
        .get_or_raise()
    )
    job.ext_outputs = [DatasetId("victim", "0")]
    controller = f"tcp://localhost:{port}"
    p = Process(target=launch_executor, args=(job, controller, port + 1, host, 2))
    p.start()
    start = time.time()
    try:
        bridge = Bridge(controller, 1)
        state = impl.run(job, bridge, precompute(job))
        outcome = f"returned normally, outputs={state.outputs!r}"
        is_error = False
    except Exception as e:
        outcome = f"raised {e!r:.300}"
        is_error = True
    report(stage="run", is_error=is_error, outcome=outcome, took=time.time() - start)
    p.join(20)
    os._exit(0)


# ---------------------------------------------------------------- parent
def free_port_base() -> int:
    for _ in range(200):
        base = random.randint(20000, 60000)
        socks = []
        try:
            for off in range(0, 5):
                s = socket.socket(socket.AF_INET, socket.SOCK_STREAM)
                s.bind(("0.0.0.0", base + off))
                socks.append(s)
                u = socket.socket(socket.AF_INET, socket.SOCK_DGRAM)
                u.bind(("0.0.0.0", base + off))
                socks.append(u)
            return base
        except OSError:
            continue
        finally:
            for s in socks:
                s.close()
    raise RuntimeError("no free ports")


def cleanup(child: subprocess.Popen, host: str) -> None:
    try:
        os.killpg(child.pid, signal.SIGKILL)
    except ProcessLookupError:
        pass
    try:
        child.wait(10)
    except Exception:
        pass
    time.sleep(0.5)
    for d, pref in (("/dev/shm", f"sCasc{host}"), ("/tmp", f"{host}.")):
        for name in os.listdir(d):
            if name.startswith(pref):
                try:
                    os.unlink(os.path.join(d, name))
                except OSError:
                    pass


def main() -> int:
    host = f"a{os.getpid() % 100000}"
    port = free_port_base()
    tmp = tempfile.mkdtemp(prefix="c05demo1")
    result_path = os.path.join(tmp, "result.jsonl")
    log_path = os.path.join(tmp, "cluster.log")
    with open(log_path, "wb") as log:
        child = subprocess.Popen(
            [sys.executable, os.path.abspath(__file__), "--cluster", host, str(port), result_path],
            stdout=log,
            stderr=log,
            start_new_session=True,
            env={**os.environ, "REPO_ROOT": ROOT},
        )
    deadline = time.time() + RUN_DEADLINE_S
    result = None
    while time.time() < deadline:
        if os.path.exists(result_path):
            lines = [json.loads(l) for l in open(result_path) if l.strip()]
            if lines:
                result = lines[0]
                break
        if child.poll() is not None and not os.path.exists(result_path):
            break
        time.sleep(0.2)
    cleanup(child, host)

    if result is None:
        if child.returncode not in (None, -9):
            print(f"FAIL: cluster driver died with rc={child.returncode}, see {log_path}")
            return 1
        print(
            f"FAIL: a task body called sys.exit(0), but the controller's run did not "
            f"end within {RUN_DEADLINE_S}s -- it waits forever for an output that cannot be produced "
            f"(the death of the worker was not noticed / reported). Log: {log_path}"
        )
        return 1
    if not result["is_error"]:
        print(f"FAIL: the run {result['outcome']} although the only task never finished")
        return 1
    print(f"OK: run ended after {result['took']:.1f}s, it {result['outcome']}")
    return 0


if __name__ == "__main__":
    if len(sys.argv) > 1 and sys.argv[1] == "--cluster":
        cluster_main(sys.argv[2], int(sys.argv[3]), sys.argv[4])
    else:
        sys.exit(main())
