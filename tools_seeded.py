#!/usr/bin/env python3
"""Confirms seeded breaking changes produced by sub-agents and runs the checks against them.

usage: tools_seeded.py <property> [<property to check> ...]   (worktree /tmp/seed/<property>, changes in _seeded/<k>/)
For each change: demo passes on the clean worktree; with the patch applied the baseline suite still passes and the demo
fails; then `./vfc check <pid> --tier quick` is run with VF_REPO pointing at the patched worktree (never /repo).
Writes /tmp/seed/results/<property>.json."""
import json, os, subprocess, sys, glob, shutil, time

pid = sys.argv[1]
check_pids = sys.argv[2:] or [pid]
ROOT = os.environ.get("SEED_ROOT", "/tmp/seed")
RES = os.environ.get("SEED_RESULTS", "/tmp/seed/results/final")
wt = f"{ROOT}/{pid}"
res = []
env = dict(os.environ, REPO_ROOT=wt, PYTHONPATH=f"{wt}/src")

def sh(cmd, **kw):
    return subprocess.run(cmd, shell=True, capture_output=True, text=True, **kw)

def suite():
    # the editable install points at /repo/src, so the worktree's sources have to be put first explicitly; tests/cascade cannot be
    # collected in the baseline (and are not part of the 133 stable tests), so the same 133 tests are tests/earthkit_workflows
    r = sh(f"cd {wt} && PYTHONPATH={wt}/src /venv/bin/python -m pytest -q -p no:cacheprovider --timeout=900 --continue-on-collection-errors tests/earthkit_workflows 2>&1 | tail -1")
    return r.stdout.strip()

def demo(d):
    f = "demo.py" if os.path.exists(f"{d}/demo.py") else "test_demo.py"
    cmd = f"cd {d} && timeout 600 /venv/bin/python {f}" if f == "demo.py" else f"cd {d} && timeout 600 /venv/bin/python -m pytest -q -p no:cacheprovider {f}"
    r = subprocess.run(cmd, shell=True, capture_output=True, text=True, env=env)
    return r.returncode, (r.stdout + r.stderr)[-400:]

sh(f"git -C {wt} checkout -- src")
for d in sorted(glob.glob(f"{wt}/_seeded/*/")):
    d = d.rstrip("/")
    k = os.path.basename(d)
    entry = {"k": k, "meta": json.load(open(f"{d}/meta.json")) if os.path.exists(f"{d}/meta.json") else {}}
    rc0, out0 = demo(d)
    entry["demo_clean_rc"] = rc0
    ap = sh(f"git -C {wt} apply {d}/patch.diff")
    if ap.returncode:
        entry["apply_error"] = ap.stderr[-300:]
        res.append(entry); continue
    entry["suite_patched"] = suite()
    rc1, out1 = demo(d)
    entry["demo_patched_rc"] = rc1
    entry["demo_patched_out"] = out1[-300:]
    entry["confirmed"] = rc0 == 0 and rc1 != 0 and "133 passed" in entry["suite_patched"]
    entry["checks"] = {}
    for cp in check_pids:
        out_dir = f"/tmp/vfout/{os.path.basename(ROOT)}-{pid}-{k}-{cp}"
        shutil.rmtree(out_dir, ignore_errors=True); os.makedirs(out_dir)
        t0 = time.time()
        r = subprocess.run(f"cd /verif && VF_REPO={wt} VF_OUT={out_dir} ./vfc check {cp} --tier quick", shell=True, capture_output=True, text=True)
        keys = sorted({l.split("key=")[1].split()[0] for l in r.stdout.splitlines() if "key=" in l and "harness=" in l})
        entry["checks"][cp] = {"exit": r.returncode, "keys": keys[:8], "wall_s": round(time.time() - t0), "tail": r.stdout.strip().splitlines()[-1:] }
    sh(f"git -C {wt} checkout -- src")
    res.append(entry)
os.makedirs(RES, exist_ok=True)
json.dump(res, open(f"{RES}/{pid}.json", "w"), indent=1)
for e in res:
    print(pid, e["k"], "confirmed" if e.get("confirmed") else f"NOT-CONFIRMED({e.get('demo_clean_rc')},{e.get('demo_patched_rc')},{e.get('suite_patched')},{e.get('apply_error','')})",
          {cp: (c["exit"], c["keys"][:3]) for cp, c in e.get("checks", {}).items()}, "|", e["meta"].get("summary", "")[:110])
