#!/usr/bin/env python3
"""Copies the confirmed seeded changes (and what the checks said about them) from /tmp/seed into /verif/seeded/<id>-<k>/."""
import glob, json, os, shutil, subprocess

out_root = "/verif/seeded"
rows = []
head = subprocess.run(["git", "-C", "/repo", "rev-parse", "--short", "HEAD"], capture_output=True, text=True).stdout.strip()
for f in sorted(glob.glob("/tmp/seed/results/final/C*.json")):
    pid = os.path.basename(f)[:-5]
    for e in json.load(open(f)):
        if not e.get("confirmed"):
            rows.append((pid, e["k"], "NOT CONFIRMED", "", e.get("meta", {}).get("summary", "")))
            continue
        src = f"/tmp/seed/{pid}/_seeded/{e['k']}"
        dst = f"{out_root}/{pid}-{e['k']}"
        os.makedirs(dst, exist_ok=True)
        shutil.copy(f"{src}/patch.diff", f"{dst}/patch.diff")
        demo = "demo.py" if os.path.exists(f"{src}/demo.py") else "test_demo.py"
        shutil.copy(f"{src}/{demo}", f"{dst}/{demo}")
        chk = e["checks"].get(pid, {})
        meta = {
            "property": pid,
            "summary": e["meta"].get("summary", ""),
            "needs": e["meta"].get("needs", ""),
            "files": e["meta"].get("files", []),
            "origin": "written by an independent sub-agent that saw only the property text and its own scratch worktree",
            "relative_to_repo_commit": head,
            "what_was_run": [
                f"{demo} on the clean worktree: exit {e['demo_clean_rc']}",
                f"git apply patch.diff; PYTHONPATH=<worktree>/src pytest tests/earthkit_workflows: {e['suite_patched']}",
                f"{demo} with the patch: exit {e['demo_patched_rc']}",
                f"VF_REPO=<patched worktree> ./vfc check {pid} --tier quick: exit {chk.get('exit')} keys {chk.get('keys')}",
            ],
            "detected_by_quick_check": chk.get("exit") == 1,
            "violation_keys": chk.get("keys", []),
        }
        json.dump(meta, open(f"{dst}/meta.json", "w"), indent=1)
        rows.append((pid, e["k"], "detected" if chk.get("exit") == 1 else f"MISSED (exit {chk.get('exit')})", ", ".join(chk.get("keys", [])[:3]), meta["summary"]))
with open(f"{out_root}/SUMMARY.md", "w") as fh:
    fh.write("| seeded change | outcome of the quick check | violation keys | what the change does |\n|---|---|---|---|\n")
    for pid, k, outcome, keys, summ in rows:
        fh.write(f"| {pid}-{k} | {outcome} | {keys} | {summ[:160].replace('|', '/')} |\n")
print(f"{len(rows)} seeded changes, detected {sum(1 for r in rows if r[2] == 'detected')}")
