#!/usr/bin/env python3
"""Copies the confirmed seeded changes (and what the checks said about them) from /tmp/seed* into /verif/seeded/."""
import glob, json, os, shutil, subprocess

out_root = "/verif/seeded"
rows = []
head = subprocess.run(["git", "-C", "/repo", "rev-parse", "--short", "HEAD"], capture_output=True, text=True).stdout.strip()
SOURCES = [("/tmp/seed/results/final", "/tmp/seed", ""), ("/tmp/seed/results/round2", "/tmp/seed2", "r2-")]
for resdir, seedroot, prefix in SOURCES:
    for f in sorted(glob.glob(f"{resdir}/C*.json")):
        pid = os.path.basename(f)[:-5]
        for e in json.load(open(f)):
            name = f"{prefix}{pid}-{e['k']}"
            if not e.get("confirmed"):
                rows.append((name, "NOT CONFIRMED (not kept)", "", e.get("meta", {}).get("summary", "")))
                continue
            src = f"{seedroot}/{pid}/_seeded/{e['k']}"
            dst = f"{out_root}/{name}"
            os.makedirs(dst, exist_ok=True)
            shutil.copy(f"{src}/patch.diff", f"{dst}/patch.diff")
            demo = "demo.py" if os.path.exists(f"{src}/demo.py") else "test_demo.py"
            shutil.copy(f"{src}/{demo}", f"{dst}/{demo}")
            detected = [cp for cp, c in e["checks"].items() if c.get("exit") == 1]
            keys = sorted({k for c in e["checks"].values() for k in c.get("keys", [])})
            meta = {
                "property": pid,
                "summary": e["meta"].get("summary", ""),
                "needs": e["meta"].get("needs", ""),
                "files": e["meta"].get("files", []),
                "origin": "written by an independent sub-agent that saw only the property text and its own scratch worktree",
                "relative_to_repo_commit": head,
                "what_was_run": [
                    f"{demo} on the clean worktree: exit {e['demo_clean_rc']}",
                    f"git apply patch.diff; PYTHONPATH=<worktree>/src pytest tests/earthkit_workflows: {e['suite_patched']}",
                    f"{demo} with the patch: exit {e['demo_patched_rc']}",
                ] + [f"VF_REPO=<patched worktree> ./vfc check {cp} --tier quick: exit {c.get('exit')} keys {c.get('keys')}" for cp, c in e["checks"].items()],
                "detected_by_quick_check_of": detected,
                "violation_keys": keys,
            }
            json.dump(meta, open(f"{dst}/meta.json", "w"), indent=1)
            outcome = ("detected by " + ",".join(detected)) if detected else "MISSED (" + ",".join(f"{cp}: exit {c.get('exit')}" for cp, c in e["checks"].items()) + ")"
            rows.append((name, outcome, ", ".join(keys[:3]), meta["summary"]))
with open(f"{out_root}/SUMMARY.md", "w") as fh:
    fh.write("| seeded change | outcome of the quick check | violation keys | what the change does |\n|---|---|---|---|\n")
    for name, outcome, keys, summ in rows:
        fh.write(f"| {name} | {outcome} | {keys} | {summ[:170].replace('|', '/')} |\n")
    notes = "/verif/seeded/NOTES.md"
    if os.path.exists(notes):
        fh.write("\n" + open(notes).read())
print(f"{len(rows)} seeded changes, detected {sum(1 for r in rows if r[1].startswith('detected'))}")
