#!/usr/bin/env python3
"""Copies newly confirmed seeded changes (and what the checks said about them) from a seeding round's scratch area into
/verif/seeded/, then regenerates seeded/SUMMARY.md from every seeded/*/meta.json.

usage: tools_seeded_collect.py [<results dir> <seed root> <prefix>]     e.g. /tmp/seed2/results/round2 /tmp/seed2 r2-
Without arguments only the summary is regenerated."""
import glob, json, os, shutil, subprocess, sys

out_root = "/verif/seeded"
head = subprocess.run(["git", "-C", "/repo", "rev-parse", "--short", "HEAD"], capture_output=True, text=True).stdout.strip()
not_confirmed = []
if len(sys.argv) >= 4:
    resdir, seedroot, prefix = sys.argv[1:4]
    for f in sorted(glob.glob(f"{resdir}/C*.json")):
        pid = os.path.basename(f)[:-5]
        for e in json.load(open(f)):
            name = f"{prefix}{pid}-{e['k']}"
            if not e.get("confirmed"):
                not_confirmed.append((name, e.get("meta", {}).get("summary", "")))
                continue
            src = f"{seedroot}/{pid}/_seeded/{e['k']}"
            dst = f"{out_root}/{name}"
            os.makedirs(dst, exist_ok=True)
            shutil.copy(f"{src}/patch.diff", f"{dst}/patch.diff")
            demo = "demo.py" if os.path.exists(f"{src}/demo.py") else "test_demo.py"
            shutil.copy(f"{src}/{demo}", f"{dst}/{demo}")
            detected = [cp for cp, c in e["checks"].items() if c.get("exit") == 1]
            keys = sorted({k for c in e["checks"].values() for k in c.get("keys", [])})
            old = json.load(open(f"{dst}/meta.json")) if os.path.exists(f"{dst}/meta.json") else {}
            meta = {
                "property": pid,
                "summary": e["meta"].get("summary", ""),
                "needs": e["meta"].get("needs", ""),
                "files": e["meta"].get("files", []),
                "origin": "written by an independent sub-agent that saw only the property text and its own scratch worktree",
                "relative_to_repo_commit": head,
                "what_was_run": [
                    f"{demo} on the clean worktree: exit {e['demo_clean_rc']}",
                    f"git apply patch.diff; PYTHONPATH=<worktree>/src pytest tests/earthkit_workflows: {e['suite_patched']}",
                    f"{demo} with the patch: exit {e['demo_patched_rc']}",
                ] + [f"VF_REPO=<patched worktree> ./vfc check {cp} --tier quick: exit {c.get('exit')} keys {c.get('keys')}" for cp, c in e["checks"].items()],
                "detected_by_quick_check_of": detected,
                "violation_keys": keys,
            }
            # the first verdict of the checks on a change is kept for the record when a later, strengthened check is re-run on it
            first = old.get("first_run", None)
            if first is None and old.get("what_was_run"):
                first = {"detected_by_quick_check_of": old.get("detected_by_quick_check_of", []), "violation_keys": old.get("violation_keys", [])}
            if first is not None:
                meta["first_run"] = first
            json.dump(meta, open(f"{dst}/meta.json", "w"), indent=1)

rows = []
for d in sorted(glob.glob(f"{out_root}/*/")):
    name = os.path.basename(d.rstrip("/"))
    mf = f"{d}/meta.json"
    if not os.path.exists(mf):
        continue
    meta = json.load(open(mf))
    detected = meta.get("detected_by_quick_check_of", [])
    outcome = ("detected by " + ",".join(detected)) if detected else "MISSED"
    if meta.get("neutralised_by_fix") and not detected:
        outcome = "missed at first; the defect it relied on was then found on the unchanged tree and fixed - the change no longer breaks the property"
    first = meta.get("first_run")
    if first is not None and not first.get("detected_by_quick_check_of") and detected:
        outcome += " (missed at first; caught after the harness was strengthened)"
    rows.append((name, outcome, ", ".join(meta.get("violation_keys", [])[:3]), meta.get("summary", "")))
with open(f"{out_root}/SUMMARY.md", "w") as fh:
    fh.write("| seeded change | outcome of the quick check | violation keys | what the change does |\n|---|---|---|---|\n")
    for name, outcome, keys, summ in rows:
        fh.write(f"| {name} | {outcome} | {keys} | {summ[:170].replace('|', '/')} |\n")
    notes = "/verif/seeded/NOTES.md"
    if os.path.exists(notes):
        fh.write("\n" + open(notes).read())
print(f"{len(rows)} seeded changes, detected {sum(1 for r in rows if r[1].startswith('detected'))}; not confirmed (not kept): {not_confirmed}")
