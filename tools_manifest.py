#!/usr/bin/env python3
"""Regenerates MANIFEST.json from the table below (keeps it valid at all times)."""
import json, os, sys
HERE = os.path.dirname(os.path.abspath(__file__))
props = [json.loads(l) for l in open(os.path.join(HERE, "properties.jsonl"))]
ALL = [p["id"] for p in props]

CHECKS = {
 "C08": dict(
  category="other", design_ref="DESIGN.md §4 C08",
  technique="symbolic execution (CrossHair/z3) of the real Manager: one inductive step from an arbitrary valid state, all integers symbolic",
  text="Inductive step over the real cascade.shm.dataset.Manager: from every state satisfying the stated representation invariant (<=2 datasets quick / <=3 thorough, any status, 0-2 readers, all sizes/capacity/clock/start times unbounded z3 integers) every request (add/close/get/purge) and every disk-job completion (ok/failed) re-establishes the invariant free_space = capacity - sum(resident) >= 0, and add is granted/'wait'/'capacity exceeded' exactly as specified. The search tree is exhausted in the quick tier, so within the bound on datasets per state the result holds for all integer values and, by induction, for histories of any length. shm-server-dispatch: sequences of <=3 client requests (allocate / finish-write / get / free-space; sizes from a boundary palette up to 2^32+8, capacities 8 and 2^32+16) encoded with the real api.ser go through the real LocalServer.start loop; the decoded answers must agree with a reference accounting, in particular the reported free space equals capacity minus resident total and the loop never dies.",
  note="Trusted: z3, CrossHair's int/bool/dict models, the stubs listed in the evidence (fake SharedMemory registry, in-memory files, deferred disk jobs executed atomically, solver-chosen clock). Outside: thread races at byte-code granularity, >3 datasets per state."),
 "C09": dict(
  category="other", design_ref="DESIGN.md §4 C09",
  technique="symbolic execution (CrossHair/z3) of the real Manager + Disk: inductive step with symbolic content bytes, plus bounded eviction-liveness",
  text="Same inductive step as C08 with two symbolic content bytes per dataset flowing through the real Disk._page_out/_page_in: bytes under a key equal the bytes written whenever a get is granted or the data sits on disk; get is never granted before the writer closed; no unlink/page-out while a reader younger than STALE_READ holds the dataset; purge during a read is delayed and applied by the last close; the page-out lock is never left held without an outstanding job. Bounded liveness: from any valid quiescent state in which idle datasets can make room, a request is granted within 5 retries under fair completion of disk jobs.",
  note="Trusted: as C08. Content model is (declared size, first two bytes) with single-chunk file reads. Liveness excludes failed disk jobs."),
}

CTRL_NOTE = "Trusted: z3/CrossHair; the SimCluster contract (FIFO per executor channel and per data-server channel, purge immediate, worker starts only when inputs are in its host store, redundant transfer unannounced) which stands in for Bridge+executors+data servers; task bodies are uninterpreted term constructors. Outside: more tasks or free scheduling decisions than the bound, real sockets/processes, memory pressure."
CHECKS.update({
 "C01": dict(category="other", design_ref="DESIGN.md §4 C01",
  technique="solver-driven exhaustive path exploration (CrossHair/z3) of the real controller+scheduler+runner against a simulated cluster",
  text="The real controller loop (impl.run, notify, act, scheduler.api/assign/graph) and the real worker-side task execution (RunnerContext.project, runner.run, Memory, serde) run against SimCluster. DAG shape (<=3 tasks quick, <=4 thorough; positional/keyword/multi edges, 1-2 outputs), requested outputs, cluster shape and the first K scheduling decisions (which task body / transfer / fetch runs next, which channel delivers next, how events are batched) are decision variables; the decision tree is explored until CrossHair reports it exhausted. On every path: the outputs delivered are exactly the requested ones and each equals the term a 15-line sequential evaluator computes. act-step (shared with C02/C03): one call of controller.act.act on every assignment with <=3 preparation entries commands exactly the remote ones as transfers and sends one task sequence.", note=CTRL_NOTE),
 "C02": dict(category="other", design_ref="DESIGN.md §4 C02",
  technique="solver-driven exhaustive path exploration (CrossHair/z3) of the real controller against a simulated cluster with a dispatch monitor",
  text="Same exploration as C01 with GPU flags; a monitor inside the simulated executor checks at every dispatch: worker exists, has no unfinished sequence, satisfies the GPU requirement, task never dispatched before, every consumed dataset exists somewhere and is on the target host or a transfer to it is outstanding; at the end every task was dispatched exactly once.", note=CTRL_NOTE + " worker-wakeup: the receive loop of runner.entrypoint.entrypoint is lifted from the AST of the current source into a step function (harness error if the loop no longer has the expected shape) and driven with every arrival order of <=5 (thorough 7) messages from {command, publication of each of its two inputs, unrelated publication, unrelated purge, own output}: the sequence starts at most once, only after both inputs have arrived, and always once command and inputs have all arrived (no lost wake-up when the command overtakes a publication). act-step: one call of controller.act.act on every assignment with <=3 (thorough 4) preparation entries, each local or on one of two other hosts, in any order: exactly the remote entries are commanded as transfers, in order, followed by exactly one task sequence."),
 "C03": dict(category="other", design_ref="DESIGN.md §4 C03",
  technique="solver-driven exhaustive path exploration (CrossHair/z3) of the real controller: bounded liveness monitors",
  text="Same exploration. The simulated bridge raises if the controller waits while nothing is outstanding or pending work can never become enabled; a counter around plan bounds the scheduling rounds; any exception escaping run is a bookkeeping crash. On return all tasks ran, all requested outputs have values and shutdown was called once. Includes the empty job, isolated tasks, families of disjoint chains and stars against fewer / as many / more hosts, and a requested output whose value is falsy. plan-step: one call of scheduler.api.plan with a local no-op preparation never downgrades the only available copy of a dataset.", note=CTRL_NOTE + " Fairness = every pending action eventually executes (default tail)."),
 "C04": dict(category="other", design_ref="DESIGN.md §4 C04",
  technique="solver-driven exhaustive path exploration (CrossHair/z3) of the real controller with a ground-truth data monitor",
  text="Same exploration with a monitor on every purge/transmit/fetch against the simulator's ground truth: purge only of data held, after every consumer ran, after a requested value reached the caller, with no transfer/fetch from that host outstanding; transmit/fetch only from a host that holds the dataset, both when commanded and when executed.", note=CTRL_NOTE),
 "C17": dict(category="other", design_ref="DESIGN.md §2 E2, §4 C17", engine="E2-smt",
  technique="cascade/shm/api.py translated from its AST to SMT (z3): per message class, unsat of 'domain value rejected' and of 'accepted but decodes differently', integers and string lengths unbounded",
  text="Every class in cascade.shm.api.b2c: its ser/deser (and the top-level tag dispatch) are symbolically evaluated from the current source into z3 Int / Seq(Int) terms. Two obligations per class are discharged by z3: every field value of the admitted domain (sizes 0..2^63, ASCII strings, enum members) is accepted by the encoder; everything the encoder accepts decodes to the same class with equal fields (so nothing is silently truncated). The translator is validated on literal messages against the real api.ser/deser byte for byte.",
  note="Trusted: z3 (Int + Seq theories), the base-256 digit lemma (discharged as a bit-vector query per width), is_ascii as an uninterpreted predicate. Executor/gateway/report/job-JSON encodings go through pickle/orjson/pydantic (C code) and are outside this engine."),
})

CHECKS.update({
 "C10": dict(category="other", design_ref="DESIGN.md §4 C10",
  technique="solver-driven exhaustive enumeration (CrossHair/z3 decision tree) of node configurations through the real node2task/graph2job + runner.run, against an oracle",
  text="lower-args: for every arity (<=3 quick, <=4 thorough), every injective placement of up to 2-3 upstream inputs among the positional arguments, static values from a palette, optional keyword, source kinds (default output, second output of a generator, shared source) and construction mode (hand-written Node / fluent.Node with explicit or appended input names): graph2job yields one task per node and one edge per input and, executed by the real runner.run, the callable receives exactly the declared statics and upstream values in the declared positions. lower-yields: for N=1..12 declared outputs (fluent '0'..'N-1', hand-written sorted and unsorted names) and K=0..14 yielded values: K=N binds value i to the output/coordinate declared i-th and is_last_output_of agrees with what is published last; K!=N raises inside run. Decision trees exhausted.",
  note="Trusted: z3/CrossHair, cloudpickle/pydantic (C code, concrete values only). Values are palette picks, so the solver's role is choosing the configuration. Assumed: a static string never equals one of the node's input names (ambiguous by construction). Outside: entrypoints by name, package environments."),
 "C16": dict(category="other", design_ref="DESIGN.md §4 C16",
  technique="solver-driven exhaustive enumeration (CrossHair/z3 decision tree) of DAG edge sets through the real precompute, against an independent reference",
  text="Every DAG on <=4 tasks (quick; <=5, and 6 single-output, thorough) with per ordered pair none/positional/keyword/double edge and 1-2 outputs per producer goes through the real scheduler.graph.precompute (python fallback). An independent reference in the harness (union-find components, BFS distances, longest path, nearest common descendant) must agree on: components = weakly connected components, heaviest first; sources; consumers/inputs/outputs per task; depth; value = depth - distance to nearest sink; pairwise distance matrix.",
  note="Trusted: z3/CrossHair, the reference implementation in vf/h_presched.py. Stubs: coptrs absent, thread pool map sequential. Outside: the coptrs native path, larger DAGs."),
})

CHECKS.update({
 "C12": dict(category="other", design_ref="DESIGN.md §4 C12",
  technique="solver-driven exhaustive enumeration (CrossHair/z3 decision tree) of generated DAGs through the real serialise/deserialise, JSON and Cascade file round-trips",
  text="Every generated DAG within the bound (<=2 nodes full, 3 nodes restricted in quick; <=3 full, 4 restricted in thorough; 0-2 inputs per node, output kinds default / two named / none - so terminal nodes with and without outputs and multi-output nodes occur - payload palettes) and six fluent-built graphs go through deserialise(serialise(g)), from_json(to_json(g)) and Cascade.serialise/from_serialised over an in-memory file. The result must have exactly the generated structure (names, outputs, inputs, payloads - compared by the harness, independent of Graph.__eq__) and be equal by Graph.__eq__ in both directions.",
  note="Trusted: z3/CrossHair, json and dill (C/py libraries, concrete values only). Unique names n0..nk. Outside: payloads dill cannot pickle; bigger graphs."),
})

CHECKS.update({
 "C19": dict(category="other", design_ref="DESIGN.md §4 C19",
  technique="solver-driven exhaustive enumeration (CrossHair/z3 decision tree) of builder call sequences through the real TaskBuilder/JobBuilder, against the harness' own well-formedness predicate",
  text="Tasks are created with from_callable from a palette of seven signatures (no parameters, un-annotated, annotated with defaults, keyword-only, *args, bool default, str->str), values are bound positionally and by keyword (matching and mismatching types), edges have existing or dangling source task / source output / sink task / sink parameter, positional or keyword. build() must return ok exactly when the harness' independent well-formedness predicate holds and otherwise a non-empty list of problem strings, never raise; an accepted job has no dangling edge and carries exactly the bound values under their positions and names; jobs and builders obtained earlier are unchanged afterwards. Decision trees exhausted in the quick tier (edges and bound values explored separately; thorough explores the product).",
  note="Trusted: z3/CrossHair, cloudpickle/pydantic/pyrsistent. Assumed: keyword values are bound only to parameters the callable has; a missing annotation is compatible with every type. Outside: the domain-specific type names in `skipped`."),
})

CHECKS.update({
 "C18": dict(category="other", design_ref="DESIGN.md §4 C18",
  technique="symbolic execution (CrossHair/z3) of the real JobRouter + handle_controller/handle_fe with symbolic integer timestamps and solver-chosen report sequences",
  text="Jobs are registered in a real JobRouter; sequences of 3 (quick) / 4-5 (thorough) controller reports (progress / result upload / shutdown; job chosen per report; each optionally delivered twice) with unbounded symbolic timestamps are fed through the real handle_controller, so every relative order and tie of timestamps is covered on each path. Oracle: per job the displayed progress is carried by a report with the greatest timestamp (initial value if none), shutdown leaves it and unregisters the socket; then concrete JSON queries go through the real handle_fe/parse_request/serialize_response: results are returned exactly as uploaded and only for their (job, dataset), unknown job/dataset get an error and the next query is still answered; spawn_job with an id generator that repeats existing ids never reuses one and leaves other jobs untouched. Decision trees exhausted.",
  note="Trusted: z3/CrossHair, orjson/pydantic/base64 on concrete values; pickle of reports replaced by identity; subprocess spawning stubbed. Outside: the poller loop of serve(), reports from unknown jobs."),
})

CHECKS.update({
 "C15": dict(category="other", design_ref="DESIGN.md §2 E3, §4 C15", engine="E3-symreal",
  technique="symbolic reals (z3 Real terms as numpy/xarray object-array elements) through the real backends; z3 decides result != reference for all element values on every comparison path",
  text="Every backend operation (sum, prod, min, max, mean, std, var with 2..4 (thorough 6) arguments and single-argument with every axis; stack/concat with every axis; add/subtract/multiply/divide/pow; take with int and list indices) is run unmodified on arrays whose elements are z3 Real terms, on the array-API backend and on the xarray backend, for shapes (2,), (2,2) (thorough also (3,), (2,3)). The result is compared with a first-principles reference term; z3 is asked for element values that separate them (unsat = equal for all reals; min/max explore every feasible comparison outcome). Every function that carries the batchable mark in the current source (discovered by introspection) is checked for every ordered partition of 2..4 (5) arguments, and every set partition for the symmetric reductions: f(f(B1),...,f(Bm)) = f(all) for all reals. A model is replayed exactly on Fraction arrays before it is reported.",
  note="Trusted: z3 (QF_NRA incl. an uninterpreted sqrt), numpy/xarray object-array loops. Exact real arithmetic - rounding, NaN handling, other dtypes, the FieldList backend are outside. A batch of one is passed through unchanged (as fluent does); xarray reductions use skipna=False."),
})

CHECKS.update({
 "C13": dict(category="other", design_ref="DESIGN.md §2 E3, §4 C13", engine="E3-symreal",
  technique="fluent programs built by the real fluent code and evaluated on symbolic reals (z3 Real array elements); z3 decides result != direct computation for all element values",
  text="318 (quick) fluent programs over source node arrays of shape (2,), (3,), (2,2) (thorough adds (4,), (3,2), (2,3)): every named reduction x every dimension x every batch_size 0..n+1 x keep_dim, stack/concatenate/flatten, select/isel per coordinate, map, expand, scalar and action arithmetic, broadcast, join (new dimension by name, by Coord, along an existing dimension), transform, and depth-2 compositions. The graph is built natively by the real fluent API; a reference interpreter evaluates it by calling each node's payload on object arrays of z3 Reals; the oracle applies the operation directly to the stacked source terms. Checked: dims and coords of Action.nodes are the documented ones; at every coordinate z3 finds no element values separating result and oracle (all comparison outcomes of min/max explored).",
  note="Trusted: z3, numpy object loops, the reference interpreter (values keyed by node identity). Exact reals; sqrt and non-integer power uninterpreted. The coordinate label of a kept dimension is not documented and not checked. Outside: rounding, size-1 reduced dimensions, depth > 2, other backends."),
})

CHECKS.update({
 "C14": dict(category="other", design_ref="DESIGN.md §4 C14",
  technique="solver-driven exhaustive enumeration (CrossHair/z3 decision tree) of pairs of fluent node descriptions and of operation/shape configurations through the real fluent code",
  text="fluent-names: for every pair of callables from a palette (two functions, two lambdas, two closures sharing __name__, two partials) a node description (0-1 static args from a palette of look-alike values 1/'1'/1.0/True/'a', optional kwarg, 0-2 inputs in either order) and a second one that equals the first or differs in exactly one aspect are built with the real fluent.Node: equal names imply the same callable, equal typed static arguments and the same inputs; building twice gives the same name; Cascade.from_actions of both has one uniquely named node per distinct computation and graph2job one task per node. fluent-operands: every unary operation (reductions with/without batching and keep_dim, stack/concatenate incl. size-1 dimensions, flatten, map, expand, select/isel, scalar arithmetic, transform) and every binary operation between actions with equal or shifted coordinates leaves dims, shape, coords, node identities and attrs of the receiving action and of the operand unchanged.",
  note="Trusted: z3/CrossHair, SHA-256 collision freedom, xarray. The operands half is solver-picked configuration with concrete execution (xarray cannot run under the tracer) - the weakest use of the technique here. Known findings (recorded, not repaired): distinct lambdas / distinct callables with equal __name__ collide."),
})

CHECKS.update({
 "C11": dict(category="other", design_ref="DESIGN.md §4 C11",
  technique="solver-driven exhaustive enumeration (CrossHair/z3 decision tree) of generated DAGs, name schemes and transformation parameters through the real graph transformers, against denotation/structure oracles",
  text="Generated DAGs (1..3 nodes quick, 1..4 thorough; 0-2 inputs per node; output kinds default / a,b / name,payload / none; payload palette; four schemes of look-alike names such as a, a.b, ab, b.a, 0, x., '.', 'a.') go through copy_graph, rename_nodes (three injective renamers), deduplicate_nodes, fuse_nodes (callbacks 'never' and 'fuse linear chains'), split_graph (every 2-colouring) and expand_graph (template source->mid->leaves, with and without input/output maps, with and without an extra inner sink). Oracles: structure and sink denotations preserved (modulo renaming / prefixing / unfolding of fused chains); dedup leaves one node per distinct computation and is idempotent; split places every node in exactly one part, reports exactly the crossing edges and re-joins to the original; expand wires each consumer to the leaf selected by the output map and keeps an expanded terminal node alive. Decision trees exhausted in the quick tier.",
  note="Trusted: z3/CrossHair. Names, outputs and payloads are palette picks (sets of Node objects iterate in id() order, so symbolic strings would make paths non-deterministic): the solver chooses the configuration. Assumed: unique names; prefixed names of an expansion do not collide with existing ones. Outside: custom splicers/splitters, other fusion callbacks, cyclic graphs, bigger graphs."),
})

CHECKS.update({
 "C06": dict(category="other", design_ref="DESIGN.md §4 C06",
  technique="solver-driven exhaustive exploration (CrossHair/z3 decision tree) of per-frame fault patterns and endpoint interleavings through the real Bridge, Executor.recv_loop, ReliableSender and Listener; plus a symbolic one-step obligation on the retry budget",
  text="ack-messaging: a real Bridge (built by its own constructor from a queued registration) and a real Executor (recv_loop stepped one iteration at a time) talk through an in-process zmq stand-in whose first F transmissions (data frames and acknowledgements alike, both directions) are each delivered / dropped / duplicated / delayed behind the next one by solver decision, with S solver-chosen interleaving steps (controller iteration / executor iteration / clock jump past the resend grace) and then a fair tail on a perfect network. Assert, for both directions: nothing is delivered that was not sent, nothing twice, and every message is delivered or the run ends with a sender raising. retry-budget-step: with symbolic remaining budget, record time and clock, maybe_retry resends exactly the due record, decreases the budget by one and raises exactly when it reaches zero (covers the real constant 20). frame-sequences: every list of <=4 frames from {Syn, other Syn, Ack, message, payload header, raw bytes, undecodable} through Listener._recv_one: well-formed lists (what send / callback / send_data produce) return the original message (None for a retransmission) and acknowledge the Syn; everything else raises and is never delivered as a message.",
  note="Trusted: z3/CrossHair, pickle, the fakezmq contract (per-address FIFO; faults only where injected). max_retries_per_message lowered to 3 in the exploration. Outside: TCP behaviour of zmq, unbounded histories, growth of Listener.acked, heartbeats."),
})
CHECKS["C17"]["text"] += " Boundary literals (non-ASCII strings, 2^32, 2^63, 2^64-1, 2^64, -1) go through the real api.ser/deser before the translation: whatever the encoder accepts must come back unchanged. wire-pickle-json: every executor message class, controller reports, gateway requests/responses (incl. a job instance submitted through the real request_response / parse_request / serialize_response over a fake REQ socket) and generated job instances through orjson and back, with boundary values; declaration order of task outputs must survive."
CHECKS["C17"]["text"] += " Executor-message framing (Syn/Ack/payload frames) is covered by the frame-sequences harness shared with C06."
CHECKS["C17"]["text"] += " has-wire-tag: every message class of the module (found in the AST: defines or inherits ser and deser, has no subclass) must carry exactly one tag in b2c - a class the tables do not know cannot be sent."
CHECKS["C11"]["text"] += " xform-symnames: the names themselves are solver variables (CrossHair symbolic strings): the expanded node's name and the template leaf's name (length 1..2 quick, 1..3 thorough, alphabet {a, .}), two node names under rename_nodes, an output name of length 1..4 over the letters of 'name' read by a consumer through copy / rename / no-op expand / never-fuse / dedup / one-colour split, and producer+output names across a cut edge; one explored path stands for every name that drives the string handling (prefixing, prefix removal, attribute lookup by output name) down the same branches, and the decision tree is exhausted."
CHECKS["C11"]["note"] = CHECKS["C11"]["note"].replace("Names, outputs and payloads are palette picks (sets of Node objects iterate in id() order, so symbolic strings would make paths non-deterministic): the solver chooses the configuration.", "In the generated-DAG harnesses names, outputs and payloads are palette picks (sets of Node objects iterate in id() order, so symbolic strings on arbitrary DAGs made paths non-deterministic); in xform-symnames they are symbolic strings on fixed 3-4 node shapes.")
FULLSTACK = " fullstack-{pid}: the same controller loop against the real Bridge, one real Executor.recv_loop per host, the real worker receive loop (lifted from entrypoint()) with the real execute_sequence / runner.run / Memory per worker and one real DataServer per host, joined by the in-process zmq stand-in (loss-free FIFO per address); which component steps next is a solver-decided pick for the first K steps (jobs of 1..3 tasks on 1..2 hosts quick, more shapes thorough). Nothing of the cluster is modelled in these runs: {what}"
CHECKS["C01"]["text"] += FULLSTACK.format(pid="C01", what="the delivered outputs equal the sequential terms and the run does not fail.")
CHECKS["C02"]["text"] += FULLSTACK.format(pid="C02", what="no worker ever reads a dataset that is not on its host and every task starts exactly once.") + " notify-step: notify() on <=4 (thorough 6) publication / transfer-completion notices for the inputs of a fan-in task, any order, multiplicity and batching: the task becomes computable exactly when each input has been announced at least once."
CHECKS["C03"]["text"] += FULLSTACK.format(pid="C03", what="the run returns with every output present, every executor has terminated after the shutdown handshake, every worker received WorkerShutdown, the shm server was shut down once per host and the data server killed.") + " notify-step as in C02."
CHECKS["C06"]["text"] += " retry-when-busy: one iteration of Executor.recv_loop / Bridge.recv_events with an in-flight record of symbolic age and an inbox holding nothing / a stale ack / a local publication / both: the record is retransmitted in that iteration iff it is overdue. Publications may carry a transfer index equal to an acknowledged-send index (tidx variants)."
CHECKS["C08"]["text"] += " Operation freespace: from any I-state a FreeSpaceRequest goes through the real LocalServer.start dispatch and the reported figure must equal capacity minus the resident total (sizes symbolic)."
CHECKS["C09"]["text"] += " Reader tables of the pre-state use the ids the store itself hands to the 1st/2nd/3rd concurrent reader (three real gets on a scratch dataset); a granted get must add exactly one reader. Left-over spill files of any (symbolic) size, equal sizes included."
CHECKS["C15"]["text"] += " take also with negative, consecutive and repeated positions; xarray concat of labelled inputs keeps the inputs' order. Family dtype: mixed-dtype witnesses (int64/float64, int8/int64, float32/float64, bool/int64) executed concretely against NumPy on the promoted arrays - this sub-clause is sampled, not decided by the solver."
CHECKS["C17"]["text"] += " In-domain literals (2^32-1, 2^32, 2^40+5, 2^63; empty and long ASCII keys) through the real encoder/decoder. instance-file: a job instance through the real writers router._spawn_local/_spawn_slurm and the real reader benchmarks.get_job over an in-memory open(). Frame kind zraw: a payload that is itself a complete zlib stream."
CHECKS["C17"]["text"] += " accepted-fits-the-datagram: nothing the encoder accepts is longer than the number of bytes server and client read per datagram (parsed from their recv/recvfrom calls); decided on a length abstraction of the encoding (each string length an integer variable), a model is turned into a message and replayed through deser(ser(m)[:N])."
CHECKS["C12"]["text"] += " Input names include names that parameters of the reader's helpers have (data, node_factory). serial-symnames: node and output names as CrossHair symbolic strings (length 1..2 quick, 1..3 thorough, over the characters t and 0) through serialise/deserialise of three-node graphs (chain, named outputs, terminal node with an output); the whole decision tree over the names is exhausted - e.g. a reader that takes a two-character name for a (parent, output) pair is answered with such a name."
CHECKS["C14"]["text"] += " One action holding the same computation twice (two node objects) must come out of Cascade.from_actions with one node per computation."
CHECKS["C13"]["text"] += " Programs added in session 3: broadcast against an action whose additional dimension comes first (broadcast-lead), concatenate over labelled xarray inner arrays (concatenate-xr)."
CHECKS["C01"]["text"] += " serde-registry (shared with C10): values of a class with a registered custom serde, of a subclass of it, of an unrelated class and builtins come back from executor.serde equal and of the same type."
CHECKS["C10"]["text"] += " serde-registry: see C01 - what a task produces is what its consumers receive, also for subclass instances when a serde is registered for the base class."
CHECKS["C03"]["text"] += " migrate-step: scheduler.assign.migrate_to_component from states produced by the real initialize/assign/plan/notify (producer with two consumers next to an isolated task, 1..3 rounds, any completion order): moving any host into the component never raises, also when the component's tasks have already been handed to workers."
CHECKS["C04"]["text"] += " build-assignment-step: build_assignment for a consumer on a fourth host with the input spread over three hosts in any mix and order of 'available' / 'preparing': the planned transfer names a host that holds the dataset. fetch-step: notify + flush_queues on publication, payload delivery and replica notice of a requested output in any order, for values 0, '', False, [], 0.0, 7, 'x': fetched exactly once, delivered unchanged, not purged while consumers are pending."
CHECKS["C06"]["text"] += " dedup-permanent: the retry of a delivered message is recognised after 0/1/10/300 other messages (same or other sender) and after up to an hour of clock time."
CHECKS["C11"]["text"] += " xform-cutnames: two different cut edges never share a name, with producer/output/consumer/input names that spell the same dotted or arrow-joined string. Split keys may depend on a node's ancestry; a template may contain an unmapped source named like an input of the expanded node."
CHECKS["C14"]["text"] += " Callable palette includes two dynamically created backend dispatchers (backends.norm, backends.diff). Operations include a transform whose per-parameter function selects everything, select-all, and expansion along two different internal axes (names must differ, and building a program again after other programs gives the same names). Known findings are keyed by the pair of callables, so any other pair with equal names is a violation."
CHECKS["C16"]["text"] += " The edge list is also given reversed / rotated / interleaved; a name scheme with dots makes task 'a' + output 'b.c' and task 'a.b' + output 'c' spell the same string; precompute must return within 30 s."
CHECKS["C17"]["text"] += " wire-cross-process: every executor message class and a controller report (6 value variants) encoded here and decoded in a second interpreter with another hash seed: equal, same hash, found in sets/dicts keyed by the locally built identifier (concrete execution, listed for completeness)."
CHECKS["C18"]["text"] += " Results include a 900 kB dataset (base64 text longer than a mebi-character)."
CHECKS["C19"]["text"] += " A pre-filled task may be specialised again: a second with_values binds the position given in that call."
CHECKS["C13"]["text"] += " expand-two-axes: the same action expanded along its first internal axis and then, in the same process, along its last one counted from the end."
CHECKS["C15"]["text"] += " stack also with negative axes and with arguments of different rank (broadcast first; on the xarray backend broadcast by dimension name, the lower-rank operand on either dimension, axes -3..2); take with the axis counted from the end; 5, 6 and 9 arguments for sum/prod/mean; equal narrow integer dtypes at the type boundary in the dtype family."
CHECKS["C09"]["text"] += " The store records, and tells readers, exactly the length the writer allocated."
CHECKS["C01"]["text"] += " A retried notice may be overtaken by the next one of the same executor (overtake shards); running a task must leave its task description in the job unchanged."
CHECKS["C08"]["text"] += " shm-evict-liveness (shared with C09): eviction rounds in which several idle datasets are paged out at once; two allocations in a row; no two datasets share a reader table."
CHECKS["C11"]["text"] += " xform-split-ancestry: chains / diamonds of 2..5 nodes split by depth parity, depth // 2 or 'fed only by sources' - every node lands in the part its key names on the graph as given. xform-expand-single: a sink replaced one-for-one by a single-node template."
CHECKS["C12"]["text"] += " Payloads include a dict that looks like a serialised node; nodes with a single named output; other cascades are built and extended in the process before a file round-trip."
CHECKS["C13"]["text"] += " stack-twice (two results from the same sources before either is evaluated), eleven members along a combined dimension."
CHECKS["C14"]["text"] += " An existing node does not follow later in-place changes of the Payload object it was built from."
CHECKS["C15"]["text"] += " Operands are left intact by every call; xarray operands that store the same named dimensions in another order are combined by name."
CHECKS["C17"]["text"] += " payload-roundtrip: payload values (empty, one byte, pickled Syn / header, zlib stream, 300 kB; bytes and memoryview) through the real send_data and Listener. Non-integer sizes must be refused. Job fields filled in place after construction must reach the gateway."
CHECKS["C18"]["text"] += " Report strings are fresh objects (as after unpickling); the uuid source returns non-str objects like uuid.UUID."
CHECKS["C19"]["text"] += " Structured bound values (a dataclass instance, a named tuple, an ordered dict) must be carried as they are."
for _p in ("C01", "C02", "C03"):
    CHECKS[_p]["technique"] += "; and of the full real stack (Bridge, Executor.recv_loop, worker loop, runner, DataServer) joined in-process; unit obligations on single controller / scheduler calls"
CHECKS["C04"]["technique"] += "; unit obligations on build_assignment, notify + flush_queues, plan"
CHECKS["C11"]["technique"] += "; node / output / template names as CrossHair symbolic strings on fixed shapes"
CHECKS["C12"]["technique"] += "; node / output names as CrossHair symbolic strings through the dict round-trip"
CHECKS["C17"]["technique"] += "; framing: solver-driven enumeration of frame lists through the real Listener._recv_one"

CHECKS.update({
 "C05": dict(category="other", design_ref="DESIGN.md §4 C05",
  technique="symbolic execution / solver-driven enumeration (CrossHair/z3) of the Python-level failure chain: healthcheck, executor loop, execute_sequence, Bridge.recv_events, controller run under an injected failure",
  text="Partial claim - only what a solver can reach. (0) Manager.atexit from an arbitrary valid store state (<=2 datasets quick, <=3 thorough, any status, readers, delayed purges; symbolic sizes) leaves no segment in the (fake) shared-memory registry. (a) Executor.healthcheck with symbolic integer exit codes (or None) for two workers, shm server and data server raises exactly when some child exited non-zero. (b) Executor.recv_loop stepped with a message palette and a dead child: every failure yields exactly one ExecutorFailure to the controller, sets terminating, tells live children to stop, and terminate is idempotent; ExecutorShutdown yields exactly one ExecutorExit. (c) execute_sequence with a body raising at a solver-chosen index (RuntimeError / SystemExit): TaskFailure names the task, outputs of earlier tasks only are published. (d) Bridge.recv_events on batches of <=2 (thorough 3) messages from all 15 message classes: returns only events, and raises after calling shutdown exactly when a failure/unsupported message is present. (e) the real controller run on the simulated cluster with recv_events failing at a solver-chosen call: run propagates, shutdown is called, no delivered value differs from the sequential one.",
  note="NOT covered (needs fault injection on live processes, a different technique family): kill -9 at a chosen point, leftover child processes or /dev/shm segments after exit, signal/atexit behaviour, bounded wall-clock time. Children are inert objects with chosen exit codes; shm client shutdown is a recorder."),
 "C07": dict(category="other", design_ref="DESIGN.md §4 C07",
  technique="solver-driven exhaustive exploration (CrossHair/z3 decision tree) of command lists, per-frame fault patterns, pool-job completion order and clock through two real DataServer objects",
  text="Two real DataServer objects (recv_loop stepped; thread pool replaced by deferred jobs; per-host fake shm store) plus a controller-side Listener/ReliableSender. Command lists of 1-2 (thorough 3) from transmit / redundant transmit / fetch / purge at the target / purge at the source after arrival; the first F transmissions of payload, acknowledgement and command frames are each delivered / dropped / duplicated / delayed by solver decision; S solver-chosen steps (server iteration, controller iteration, run a pending job, clock jump beyond the 4 s resend grace, issue next command) and then a fair tail. Assert: the target holds exactly one copy with the source's bytes and deser_fun and announced it exactly once; redundant transfers add no announcement; every fetch delivers the same bytes to the controller exactly once; after a purge at the target the dataset is absent even if payloads arrive later; no data server crashes, no job is left running, no transfer failure is reported. Decision trees exhausted in the quick tier. shm-client-roundtrip: scripts of 1-3 calls of the real cascade.shm.client (allocate+write+close, get+read+close, purge, redundant allocate; two keys; default / custom / empty decoding function) against the real LocalServer dispatch and Manager over an in-memory datagram socket: bytes and decoding function read equal those written, conflicts and unknown keys are reported, no reader stays registered.",
  note="Trusted: z3/CrossHair, pickle, fakezmq contract. A pool job runs atomically. The controller purges a source only after the target announced arrival (C04). Outside: >2 hosts, payload splitting, real thread timing."),
})

NA_REASON = "check not built yet in this round (planned, see DESIGN.md §4); not claimed until its harness exists and passes on the unchanged tree"

CHECKS["C05"]["text"] += " fullstack-C05: the controller runs against the real Bridge, real Executor.recv_loop, real worker loop / execute_sequence / runner.run / Memory and real DataServer (one in-process stack, see C01), with one injected failure: a task body (solver-chosen task) raises, calls sys.exit(0) or sys.exit(3); or a worker, a data server or a shm server is marked dead (exit code -9) at a solver-chosen step of the run. Assert: the run ends (bounded number of component steps; timers fire only when nothing else can move) - raising, or returning only values equal to the sequential terms; a failing task body never lets the run return normally; afterwards every executor has terminated, every surviving worker was told to stop, the shm server was shut down and the data server killed."
CHECKS["C05"]["text"] += " shm-client-roundtrip (shared with C07/C09) ends with the shm server gone: every call of the real client comes back (with an error) within 3 s instead of retrying forever - a worker blocked in it would never handle its shutdown message."
CHECKS["C05"]["text"] += " Exit code 0 is an exit: while the executor runs, a child that has exited - whatever the code, e.g. after sys.exit(0) in a task body - must make healthcheck raise; during terminate a clean exit must not."

CHECKS["C07"]["text"] += " A pool job may finish at the very moment it is observed (solver-chosen k-th look at a running job): every completed send has its completion recorded so that it can be retried."

CHECKS["C07"]["text"] += " payload-roundtrip (shared with C17). The shm client is driven with two threads interleaved between send and recv, with an answer that arrives later than a receive timeout, and with the server gone."

CHECKS["C05"]["technique"] += "; fault injection (solver-chosen failing task / dying helper / step) into the full real stack joined in-process"

def main():
    checks = []
    for pid in ALL:
        if pid not in CHECKS: continue
        c = CHECKS[pid]
        checks.append({
            "property_id": pid,
            "quick_cmd": f"./vfc check {pid} --tier quick",
            "thorough_cmd": f"./vfc check {pid} --tier thorough",
            "evidence_file": f"evidence/{pid}.json",
            "replay_cmd_template": "./vfc replay {path}",
            "engine": c.get("engine", "E1-crosshair"),
            "level_claimed": {"category": c["category"], "text": c["text"], "design_ref": c["design_ref"]},
            "level_note": c["note"],
            "technique": c["technique"],
        })
    m = {
        "version": 1,
        "setup_cmd": "./setup.sh",
        "hooks": {
            "guard": "EARTHKIT_WORKFLOWS_VERIF",
            "enable": "no source hooks: the harnesses import /repo/src directly and install their stubs by monkey-patching at run time",
            "baseline_off_cmd": "cd /repo && /venv/bin/python -m pytest -ra -q -p no:cacheprovider --timeout=900 --continue-on-collection-errors",
            "source_commits": [],
            "add_only": True,
        },
        "engines": [
            {"name": "E2-smt", "path": "vf/engine_smt.py", "serves_properties": ["C17"], "kind_free_text": "AST -> z3 translation of cascade/shm/api.py, regenerated from the current source at every run"},
            {"name": "E3-symreal", "path": "vf/engine_symreal.py", "serves_properties": ["C13", "C15"], "kind_free_text": "z3 Real terms as array elements flowing through the real numpy/xarray backends and fluent payloads; concolic DFS over comparison outcomes; z3 decides result != reference"},
            {"name": "E1-crosshair", "path": "vf/engine_xh.py", "serves_properties": [p for p in ALL if p in CHECKS and CHECKS[p].get("engine","E1-crosshair")=="E1-crosshair"],
             "kind_free_text": "CrossHair 0.0.110 driven as a library (StateSpace/RootNode path tree, z3 deciding every branch) over the real functions; exhaustion of the decision tree within stated bounds"},
        ],
        "checks": checks,
        "notes": "All checks are solver-based checking of the real code; see DESIGN.md. Exit 0 ok, 1 replayed violation, 2 harness error / inconclusive-by-construction.",
        "not_applicable": [{"property_id": p, "reason": NA.get(p, NA_REASON)} for p in ALL if p not in CHECKS],
    }
    json.dump(m, open(os.path.join(HERE, "MANIFEST.json"), "w"), indent=1)
NA = {}
if __name__ == "__main__":
    main()
