#!/usr/bin/env python3
"""Regenerates MANIFEST.json from the table below (keeps it valid at all times)."""
import json, os, sys
HERE = os.path.dirname(os.path.abspath(__file__))
props = [json.loads(l) for l in open(os.path.join(HERE, "properties.jsonl"))]
ALL = [p["id"] for p in props]

CHECKS = {
 "C08": dict(
  category="other", design_ref="DESIGN.md §4 C08",
  technique="symbolic execution (CrossHair/z3) of the real Manager: one inductive step from an arbitrary valid state, all integers symbolic",
  text="Inductive step over the real cascade.shm.dataset.Manager: from every state satisfying the stated representation invariant (<=2 datasets quick / <=3 thorough, any status, 0-2 readers, all sizes/capacity/clock/start times unbounded z3 integers) every request (add/close/get/purge) and every disk-job completion (ok/failed) re-establishes the invariant free_space = capacity - sum(resident) >= 0, and add is granted/'wait'/'capacity exceeded' exactly as specified. The search tree is exhausted in the quick tier, so within the bound on datasets per state the result holds for all integer values and, by induction, for histories of any length.",
  note="Trusted: z3, CrossHair's int/bool/dict models, the stubs listed in the evidence (fake SharedMemory registry, in-memory files, deferred disk jobs executed atomically, solver-chosen clock). Outside: thread races at byte-code granularity, >3 datasets per state."),
 "C09": dict(
  category="other", design_ref="DESIGN.md §4 C09",
  technique="symbolic execution (CrossHair/z3) of the real Manager + Disk: inductive step with symbolic content bytes, plus bounded eviction-liveness",
  text="Same inductive step as C08 with two symbolic content bytes per dataset flowing through the real Disk._page_out/_page_in: bytes under a key equal the bytes written whenever a get is granted or the data sits on disk; get is never granted before the writer closed; no unlink/page-out while a reader younger than STALE_READ holds the dataset; purge during a read is delayed and applied by the last close; the page-out lock is never left held without an outstanding job. Bounded liveness: from any valid quiescent state in which idle datasets can make room, a request is granted within 5 retries under fair completion of disk jobs.",
  note="Trusted: as C08. Content model is (declared size, first two bytes) with single-chunk file reads. Liveness excludes failed disk jobs."),
}
NA_REASON = "check not built yet in this round (planned, see DESIGN.md §4); not claimed until its harness exists and passes on the unchanged tree"

def main():
    checks = []
    for pid in ALL:
        if pid not in CHECKS: continue
        c = CHECKS[pid]
        checks.append({
            "property_id": pid,
            "quick_cmd": f"./vfc check {pid} --tier quick",
            "thorough_cmd": f"./vfc check {pid} --tier thorough",
            "evidence_file": f"evidence/{pid}.json",
            "replay_cmd_template": "./vfc replay {path}",
            "engine": c.get("engine", "E1-crosshair"),
            "level_claimed": {"category": c["category"], "text": c["text"], "design_ref": c["design_ref"]},
            "level_note": c["note"],
            "technique": c["technique"],
        })
    m = {
        "version": 1,
        "setup_cmd": "./setup.sh",
        "hooks": {
            "guard": "EARTHKIT_WORKFLOWS_VERIF",
            "enable": "no source hooks: the harnesses import /repo/src directly and install their stubs by monkey-patching at run time",
            "baseline_off_cmd": "cd /repo && /venv/bin/python -m pytest -ra -q -p no:cacheprovider --timeout=900 --continue-on-collection-errors",
            "source_commits": [],
            "add_only": True,
        },
        "engines": [
            {"name": "E1-crosshair", "path": "vf/engine_xh.py", "serves_properties": [p for p in ALL if p in CHECKS and CHECKS[p].get("engine","E1-crosshair")=="E1-crosshair"],
             "kind_free_text": "CrossHair 0.0.110 driven as a library (StateSpace/RootNode path tree, z3 deciding every branch) over the real functions; exhaustion of the decision tree within stated bounds"},
        ],
        "checks": checks,
        "notes": "All checks are solver-based checking of the real code; see DESIGN.md. Exit 0 ok, 1 replayed violation, 2 harness error / inconclusive-by-construction.",
        "not_applicable": [{"property_id": p, "reason": NA.get(p, NA_REASON)} for p in ALL if p not in CHECKS],
    }
    json.dump(m, open(os.path.join(HERE, "MANIFEST.json"), "w"), indent=1)
NA = {}
if __name__ == "__main__":
    main()
